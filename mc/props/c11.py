"""C11 Loss minimisation attains the constrained optimum.

Lock-step monitor: every recorded transition x_k -> (y_k, alpha_k, x_{k+1}, fx, error_value) of every explored
backtracking projected-gradient run is re-derived by a reference step function (reference loss / gradient from the
forward model read as data, certified reference nearest point, Armijo halving from 1, the configured stopping rule).
End-to-end: optimality of the returned point is decided by the KKT certificate of DESIGN section 3 (nearest-point
certificate with x0 - x* replaced by -grad f, complete over all physical competitors): first at the estimate itself
and, because its residual only bounds the sub-optimality from above, also through an independently solved problem
whose solution is certified by the same certificate and then is a physical competitor with a known distance to the
true minimum.  Listed competitors (truth, alphabet objects, origin, reference projected-linear estimate) are compared
as well; the library's CVXPY-backed estimator (SCS) is judged by the same oracles and compared with the
backtracking estimates of the same problem.
"""
import contextlib
import io
import itertools
import math
import os

import numpy as np

from mc import alphabet as A, refmodel as R
from mc.core import Out, inner, HarnessError
from mc.props import _c11_ref as M

ID = "C11"
RULE = ("one case = one minimisation problem (tomography configuration, dataset, loss kind); inside it every run = "
        "(parametrisation flag, generic / fast loss class, stopping mode x history window x eps) plus the CVXPY-backed estimator; "
        "datasets: every count table with N shots per schedule (bounds per configuration), exact distributions of every "
        "alphabet object, deterministic 'typical' N-shot data for N=1e1..1e5; non-trivial = some run of the case made more than "
        "one step and ended away from the start point; distinct = distinct (configuration, dataset, loss, flag, class, stopping configuration)")
ASSUMPTIONS = [
    "the forward model (calc_matA, calc_vecB) is read as data; it is cross-checked in every case against the Born rule of the reference model",
    "default step parameter mu = 3/(2 sqrt(num_variables)) and gamma = 0.3 as documented by the option class; start point = origin object",
    "projection accuracy constant 20*sqrt(eps_proj_physical) (from C05); optimality tolerances: functions tol_excess / tol_kkt below "
    "(calibrated on the unchanged tree, worst observed ratios are recorded as counters ratio_*)",
    "relative-entropy runs that touch the documented clipping (a model probability < 1e-8 where the data are non-zero) are counted and not judged",
    "the independent solve (own cvxpy formulation, Clarabel, polished by the reference projection) is trusted only through its KKT certificate; "
    "its certified gap is added to the tolerance of every all-competitors verdict",
    "runs that end at max_iteration_optimization without meeting the criterion are lock-step checked but not judged for optimality (counted)",
    "where the reduced variables are not a (scaled) isometry of the stacked frame (POVM with >= 3 outcomes, flag on) the step direction is only "
    "required to lead to a feasible point; for a scaled isometry (POVM with 2 outcomes, flag on) the gradient may be taken in either metric; "
    "optimality is judged end-to-end in all cases",
    "estimates obtained with re-used loss / algorithm / estimator objects (sequence family) are judged against the estimate of a run on fresh objects "
    "of the same problem (which the core family judges against all competitors): their loss may exceed it by the stopping tolerance only",
    "measurement-process tomography, the momentum and FISTA algorithms and non-identity weights are not covered (not in the property's quantifier)",
]
BOUNDS = {"quick": "Qst Q1 (tables N<=3), Povmt Q1 m=2 (N<=2) and m=3 (N=1), Qpt Q1 (N=1, at most one schedule off), Qst Q3 (N=1); exact data of every "
                   "alphabet object and typical data N=1e1..1e5 for two truths x {generic, fast} x both flags; 3 datasets x 4 stopping modes x windows {1,3}; "
                   "cvxpy/SCS on every problem; max_iteration 500; sequences of 3 datasets (4 of the 6 orders) through one loss / algorithm / estimator object "
                   "(calc_estimate_sequence and repeated calc_estimate; pgdb generic+fast, both flags; cvxpy); one algorithm object over every ordered pair of "
                   "(tomography, flag) with equal variable counts (4, 8, 12 variables)",
          "thorough": "adds: every stopping mode x window {1,2,3} x eps {default, x100; /100 for the loss modes} x {generic, fast} on every core dataset; tables Qst Q1 N=4, Povmt m=2 N=3, "
                      "Povmt m=3 N=2, Qpt N=1 with at most two schedules off, Qst Q3 N=2 with at most two schedules off; SCS eps 1e-6; all 6 dataset orders"}
EXHAUSTIVE = {"quick": True, "thorough": True}
CASE_TIMEOUT = 3000

CPROJ = 20.0
EPS_PROJ = 1e-14            # library default eps_proj_physical = atol/10
FLOOR = math.sqrt(EPS_PROJ)
MAXIT = 500
CLIP_GUARD = 1e-8
GAPREF_MAX = 1e-5

MODES = {"single": "single_difference_loss", "absloss": "sum_absolute_difference_loss",
         "var": "sum_absolute_difference_variable", "pgrad": "sum_absolute_difference_projected_gradient"}
EPS_DEFAULT = {"single": 1e-12, "absloss": 1e-12, "var": 1e-8, "pgrad": 1e-4}
SCS_EPS = 1e-8
CAL = os.environ.get("C11_CAL")


def tol_excess(mode, eps, gnorm):
    """allowed f(estimate) - min f for a run stopped by (mode, eps)"""
    floor = FLOOR * (1 + gnorm)
    if mode in ("single", "absloss"):
        return 1e3 * eps + floor
    if mode == "var":
        return 1e2 * eps * (1 + gnorm) + floor
    return 1e2 * eps * eps * (1 + gnorm) + floor


def tol_kkt(mode, eps, gnorm):
    """allowed residual of the KKT certificate at the estimate (an upper bound of the sub-optimality)"""
    floor = 6e4 * FLOOR * (1 + gnorm)
    if mode in ("single", "absloss"):
        return 50 * math.sqrt(eps) + floor
    return 100 * eps + floor


def tol_cvx(eps_tol, gnorm):
    return 30 * eps_tol * (1 + gnorm)


@contextlib.contextmanager
def quiet():
    with contextlib.redirect_stdout(io.StringIO()):
        yield


def lib_objects(lossname):
    from quara.loss_function.weighted_probability_based_squared_error import (
        WeightedProbabilityBasedSquaredError, WeightedProbabilityBasedSquaredErrorOption)
    from quara.loss_function.weighted_relative_entropy import WeightedRelativeEntropy, WeightedRelativeEntropyOption
    from quara.loss_function.standard_qtomography_based_weighted_probability_based_squared_error import (
        StandardQTomographyBasedWeightedProbabilityBasedSquaredError as SEF,
        StandardQTomographyBasedWeightedProbabilityBasedSquaredErrorOption as SEFO)
    from quara.loss_function.standard_qtomography_based_weighted_relative_entropy import (
        StandardQTomographyBasedWeightedRelativeEntropy as REF, StandardQTomographyBasedWeightedRelativeEntropyOption as REFO)
    if lossname == "se":
        return WeightedProbabilityBasedSquaredError(), WeightedProbabilityBasedSquaredErrorOption("identity")
    if lossname == "se_fast":
        return SEF(), SEFO("identity")
    if lossname == "re":
        return WeightedRelativeEntropy(), WeightedRelativeEntropyOption("identity")
    if lossname == "re_fast":
        return REF(), REFO("identity")
    raise ValueError(lossname)


def run_pgdb(S, flag, N, qs, lossname, mode, nhist, eps, maxit=MAXIT):
    from quara.minimization_algorithm.projected_gradient_descent_backtracking import (
        ProjectedGradientDescentBacktracking as PGDB, ProjectedGradientDescentBacktrackingOption as PO)
    from quara.protocol.qtomography.standard.loss_minimization_estimator import LossMinimizationEstimator
    qt, _ = M.qt_of(S, flag)
    loss, lopt = lib_objects(lossname)
    po = PO(mode_stopping_criterion_gradient_descent=MODES[mode], num_history_stopping_criterion_gradient_descent=nhist,
            eps=eps, max_iteration_optimization=maxit)
    emp = [(N, np.array(q, dtype=np.float64)) for q in qs]
    with quiet():
        ok, res = A.call(LossMinimizationEstimator().calc_estimate, qt, emp, loss, lopt, PGDB(), po,
                         is_computation_time_required=True, is_detailed_results_required=True)
    return ok, res


def run_cvxpy(S, N, qs, kind, eps_tol):
    from quara.interface.cvxpy.qtomography.standard.estimator import CvxpyLossMinimizationEstimator
    from quara.interface.cvxpy.qtomography.standard.loss_function import (
        CvxpyLossFunctionOption, CvxpyRelativeEntropy, CvxpyUniformSquaredError)
    from quara.interface.cvxpy.qtomography.standard.minimization_algorithm import (
        CvxpyMinimizationAlgorithm, CvxpyMinimizationAlgorithmOption)
    qt, _ = M.qt_of(S, True)
    loss = CvxpyUniformSquaredError() if kind == "se" else CvxpyRelativeEntropy()
    emp = [(N, np.array(q, dtype=np.float64)) for q in qs]
    with quiet():
        ok, res = A.call(CvxpyLossMinimizationEstimator().calc_estimate, qt, emp, loss, CvxpyLossFunctionOption(),
                         CvxpyMinimizationAlgorithm(), CvxpyMinimizationAlgorithmOption("scs", eps_tol=eps_tol),
                         is_computation_time_required=False)
    return ok, res


# ---------------------------------------------------------------- enumeration

def core_datasets(S, tier):
    out = ["exact|%s" % n for n in S.phys]
    bt, it = M.core_truths(S)
    for t in (bt, it):
        for N in (10, 100, 1000, 10000, 100000):
            out.append("shots|%s|%d" % (t, N))
    return out


def stop_datasets(S):
    bt, it = M.core_truths(S)
    return ["exact|%s" % bt, "shots|%s|100" % bt, "shots|%s|1000" % it]


def table_plan(cfg, tier):
    """list of (N, max_weight)"""
    q = {"qst:Q1": [(1, None), (2, None), (3, None)], "povmt:Q1:m=2": [(1, None), (2, None)], "povmt:Q1:m=3": [(1, None)],
         "qpt:Q1": [(1, 1)], "qst:Q3": [(1, None)]}
    t = {"qst:Q1": [(4, None)], "povmt:Q1:m=2": [(3, None)], "povmt:Q1:m=3": [(2, None)], "qpt:Q1": [(1, 2)], "qst:Q3": [(2, 2)]}
    if tier == "quick":
        return q[cfg]
    out = list(q[cfg])
    for e in t[cfg]:
        if cfg == "qpt:Q1":
            out = [e]
        else:
            out.append(e)
    return out


STOP1 = [["single", 1, EPS_DEFAULT["single"]]]


def all_stops(tier):
    out = []
    for mode in ("single", "absloss", "var", "pgrad"):
        for nh in ((1, 3) if tier == "quick" else (1, 2, 3)):
            if tier == "quick":
                fs = (1.0,)
            elif mode in ("single", "absloss"):
                fs = (1.0, 100.0, 0.01)          # 1e-14 is the library's default eps
            else:
                fs = (1.0, 100.0)
            for f in fs:
                out.append([mode, nh, EPS_DEFAULT[mode] * f])
    return out


def families(tier, seed):
    core, stops, few = [], [], []
    for cfg in M.CFGS:
        if os.environ.get("C11_CFGS") and cfg not in os.environ["C11_CFGS"].split(","):
            continue        # development aid only
        S = M.setup(cfg, seed)
        for d in core_datasets(S, tier):
            for kind in ("se", "re"):
                core.append({"cfg": cfg, "data": d, "kind": kind, "flags": [True, False], "variants": ["", "_fast"],
                             "stops": STOP1, "cvx": [SCS_EPS] if tier == "quick" else [SCS_EPS, 1e-6]})
        for d in (stop_datasets(S) if tier == "quick" else core_datasets(S, tier)):
            for kind in ("se", "re"):
                for flag in (True, False):
                    for variant in (["_fast"] if tier == "quick" else ["", "_fast"]):
                        for mode in MODES:
                            stops.append({"cfg": cfg, "data": d, "kind": kind, "flags": [flag], "variants": [variant],
                                          "stops": [st for st in all_stops(tier) if st[0] == mode], "cvx": []})
        for (N, mw) in table_plan(cfg, tier):
            for tab in M.tables(S, N, mw):
                for kind in ("se", "re"):
                    few.append({"cfg": cfg, "data": M.table_name(N, tab), "kind": kind, "flags": [True, False], "variants": ["_fast"],
                                "stops": STOP1, "cvx": [SCS_EPS]})
    seqs = []
    for cfg in M.CFGS:
        if os.environ.get("C11_CFGS") and cfg not in os.environ["C11_CFGS"].split(","):
            continue
        S = M.setup(cfg, seed)
        ds = stop_datasets(S)
        orders = [list(o) for o in itertools.permutations(range(len(ds)))]
        if tier == "quick":
            orders = [o for o in orders if o in ([0, 1, 2], [1, 2, 0], [2, 0, 1], [2, 1, 0])]
        for kind in ("se", "re"):
            for order in orders:
                seqs.append({"cfg": cfg, "kind": kind, "datas": [ds[i] for i in order]})
    # one ALGORITHM object used for tomography A and then for tomography B with the same number of variables
    nvars = {}
    for cfg in M.CFGS:
        if os.environ.get("C11_CFGS") and cfg not in os.environ["C11_CFGS"].split(","):
            continue
        S = M.setup(cfg, seed)
        for flag in (True, False):
            nvars.setdefault(S.F.num_var(flag), []).append((cfg, flag))
    reuse = []
    for n, members in sorted(nvars.items()):
        for a in members:
            for b in members:
                if a != b:
                    for kind in ("se", "re"):
                        reuse.append({"a": list(a), "b": list(b), "kind": kind, "nvar": n})
    return [("core", core), ("stops", stops), ("fewshot", few), ("sequence", seqs), ("algo_reuse", reuse)]


def guards(summary):
    g = []
    info = summary["info"]
    need = ["steps_checked", "direction_steps_checked", "runs_stopped_by_criterion", "armijo_halvings_checked", "armijo_alpha_below_one", "boundary_minimisers",
            "interior_minimisers", "kkt_certified", "excess_judged", "competitors_compared", "cvxpy_runs_judged", "agreement_pairs",
            "agreement_positions", "sequence_elements_compared", "algo_reuse_compared", "zero_count_tables", "window_sum_decisive", "forward_model_checked", "reference_minimisers_certified"]
    for mode in MODES:
        need.append("stopped:" + mode)
    for k in need:
        if info.get(k, 0) < 1:
            g.append("never seen: " + k)
    if info.get("reference_minimiser_unavailable", 0) * 20 > info.get("reference_minimisers_certified", 0):
        g.append("more than 5% of the problems have no reference minimiser")
    if info.get("optimality_undecided", 0) * 100 > info.get("excess_judged", 0):
        g.append("more than 1% of the estimates could be neither certified nor refuted")
    judged = info.get("runs_stopped_by_criterion", 0)
    if info.get("runs_hit_max_iteration", 0) > judged:
        g.append("most runs ended at max_iteration")
    return g


# ---------------------------------------------------------------- lock-step monitor

def bucket(out, name, ratio):
    for thr in (0.01, 0.1, 0.3, 1.0):
        if ratio > thr:
            out.count("ratio_%s_gt_%g" % (name, thr))


def lockstep(out, S, flag, L, d, stop, site, cls):
    """re-derive every recorded transition; returns dict(status=..., ...) or None after a structural failure"""
    mode, nhist, eps = stop
    F = S.F
    nv = F.num_var(flag)
    mu = 3.0 / (2.0 * math.sqrt(nv))
    try:
        xs = [np.asarray(x, float).ravel() for x in d.x]
        ys = [np.asarray(y, float).ravel() for y in d.y]
        al = [float(a) for a in d.alpha]
        fxs = [float(v) for v in d.fx]
        evs = [float(v) for v in d.error_values]
    except Exception as e:  # noqa
        out.fail("%s:history-unreadable:%s" % (site, cls), A.fmt_exc(e))
        return None
    n = len(al)
    if not (len(xs) == n + 1 and len(ys) == n and len(fxs) == n + 1 and len(evs) == n and d.k == n and n >= 1):
        out.fail("%s:history-lengths:%s" % (site, cls), "x,y,alpha,fx,error_values,k = %d,%d,%d,%d,%d,%s" % (len(xs), len(ys), n, len(fxs), len(evs), d.k))
        return None
    if any(x.shape != (nv,) for x in xs) or any(y.shape != (nv,) for y in ys):
        out.fail("%s:history-shapes:%s" % (site, cls), "iterates do not have %d variables" % nv)
        return None
    x0 = F.var_from_stacked(S.origin, flag)
    if np.abs(xs[0] - x0).max() > 1e-12:
        out.fail("%s:start-point-not-origin:%s" % (site, cls), "x_0 differs from the origin object by %.3g" % np.abs(xs[0] - x0).max())
    tolp = CPROJ * FLOOR
    E = S.emb[flag][1]
    Mt = E.T @ E
    iso = float(np.abs(Mt - Mt[0, 0] * np.eye(nv)).max()) < 1e-12      # reduced variables <-> stacked frame is a scaled isometry
    info = {"status": "stopped", "n": n, "not_descent": 0.0, "alpha_min": min(al), "clipped": False, "iso": iso}
    for k in range(n):
        x, y, a = xs[k], ys[k], al[k]
        if L.clip_margin(x) < CLIP_GUARD or L.clip_margin(xs[k + 1]) < CLIP_GUARD:
            info["clipped"] = True
            info["status"] = "clipped"
            return info
        f = L.value(x)
        g = L.grad(x)
        fs = max(1.0, abs(f))
        out.count("steps_checked")
        # recorded loss values
        if abs(fxs[k] - f) > 1e-9 * fs:
            out.fail("%s:lockstep:fx-differs-from-reference-loss:%s" % (site, cls), "step %d: recorded %.12g, reference %.12g" % (k, fxs[k], f))
            return None
        # feasibility of the iterate
        xst = F.stacked_from_var(x, flag)
        if F.eq_defect(xst) > tolp or F.min_eig(xst) < -tolp:
            out.fail("%s:lockstep:iterate-not-feasible:%s" % (site, cls), "x_%d: equality defect %.3g, min eigenvalue %.3g (allowed %.3g)" % (
                k, F.eq_defect(xst), F.min_eig(xst), tolp))
            return None
        # projected-gradient direction with the reference projection
        if not iso:
            # the projection is taken in the stacked frame, the gradient in the reduced variables: "the projected-gradient
            # direction" is not unambiguous here; only feasibility of x + y is required, optimality is judged end-to-end
            out.count("direction_check_skipped_non_isometric_parametrisation")
            yst = F.stacked_from_var(x + y, flag)
            if F.eq_defect(yst) > tolp or F.min_eig(yst) < -tolp:
                out.fail("%s:lockstep:projected-point-not-feasible:%s" % (site, cls), "step %d: x_k + y_k: equality defect %.3g, min eigenvalue %.3g" % (
                    k, F.eq_defect(yst), F.min_eig(yst)))
                return None
            good = None
        else:
            zref, good, cert = M.ref_project_var(S, flag, x - g / mu)
        if good is None:
            pass
        elif not good:
            out.count("reference_projection_uncertified")
        else:
            err = float(np.abs((zref - x) - y).max())
            if err > tolp and abs(Mt[0, 0] - 1.0) > 1e-12:
                # scaled isometry (POVM with two outcomes, flag on): the gradient taken in the metric of the projection
                # differs by the constant factor; either reading of "projected-gradient direction" is accepted
                zref2, good2, cert2 = M.ref_project_var(S, flag, x - g / (mu * Mt[0, 0]))
                if good2:
                    err2 = float(np.abs((zref2 - x) - y).max())
                    if err2 <= tolp:
                        err = err2
                        out.count("direction_in_stacked_metric")
            out.count("direction_steps_checked")
            bucket(out, "ystep", err / tolp)
            if err > tolp:
                out.fail("%s:lockstep:direction-differs-from-reference-step:%s" % (site, cls),
                         "step %d: y_k differs from P(x_k - grad f(x_k)/mu) - x_k by %.3g (allowed %.3g)" % (k, err, tolp))
                return None
        gy = float(g @ y)
        yy = float(y @ y)
        noise = 4 * tolp * (float(np.linalg.norm(g)) + mu * math.sqrt(yy))
        if gy + mu * yy > noise:
            info["not_descent"] = max(info["not_descent"], (gy + mu * yy) / max(noise, 1e-300))
        # Armijo halving from 1
        if a <= 0 and a != 0.0:
            out.fail("%s:lockstep:alpha-negative:%s" % (site, cls), "step %d: alpha %r" % (k, a))
            return None
        if a > 0:
            J = -math.log2(a)
            if abs(J - round(J)) > 0 or J < 0:
                out.fail("%s:lockstep:alpha-not-a-halving-of-one:%s" % (site, cls), "step %d: alpha %r" % (k, a))
                return None
            J = int(round(J))
        else:
            J = None        # underflow to zero after 1075 halvings
        tie = 1e-12 * fs
        bad = None
        aj = 1.0
        for j in range(J if J is not None else 1080):
            mj = L.value(x + aj * y) - (f + M.GAMMA * aj * gy)
            out.count("armijo_halvings_checked")
            if mj < -tie:
                bad = "step %d: alpha %.3g was rejected although the Armijo condition holds (margin %.3g), recorded alpha %.3g" % (k, aj, -mj, a)
                break
            aj *= 0.5
            if aj == 0.0:
                break
        if bad is None and J is not None:
            mj = L.value(x + a * y) - (f + M.GAMMA * a * gy)
            if mj > tie:
                bad = "step %d: accepted alpha %.3g violates the Armijo condition by %.3g" % (k, a, mj)
        if bad:
            out.fail("%s:lockstep:armijo:%s" % (site, cls), bad)
            return None
        if a < 1.0:
            out.count("armijo_alpha_below_one")
        # update
        if np.abs(xs[k + 1] - (x + a * y)).max() > 1e-12:
            out.fail("%s:lockstep:update-is-not-x-plus-alpha-y:%s" % (site, cls), "step %d: error %.3g" % (k, np.abs(xs[k + 1] - (x + a * y)).max()))
            return None
        fn = L.value(xs[k + 1])
        if fxs[k + 1] > fxs[k] + tie or fn > f + tie:
            out.fail("%s:lockstep:loss-increases:%s" % (site, cls), "step %d: f %.15g -> %.15g" % (k, fxs[k], fxs[k + 1]))
            return None
        # stopping quantity
        if mode == "single":
            ref = f - fn
        elif mode == "absloss":
            ref = abs(f - fn)
        elif mode == "var":
            ref = float(np.linalg.norm(x - xs[k + 1]))
        else:
            ref = math.sqrt(yy)
        if abs(evs[k] - ref) > 1e-12 * fs + 1e-9 * abs(ref):
            out.fail("%s:lockstep:stopping-quantity:%s:%s" % (site, cls, mode), "step %d: recorded %.6g, reference %.6g" % (k, evs[k], ref))
            return None
        w = float(np.sum(evs[max(0, k - nhist + 1):k + 1]))
        if nhist > 1 and k >= 1 and evs[k] <= eps < w:
            out.count("window_sum_decisive")
        if k < n - 1 and w < eps * (1 - 1e-9):
            out.fail("%s:lockstep:ran-past-stopping-point:%s:%s" % (site, cls, mode), "criterion %.3g <= eps %.3g at step %d of %d" % (w, eps, k + 1, n))
            return None
        if k == n - 1:
            if w > eps * (1 + 1e-9):
                if n != MAXIT:
                    out.fail("%s:lockstep:stopped-without-criterion:%s:%s" % (site, cls, mode), "ended after %d steps with criterion %.3g > eps %.3g" % (n, w, eps))
                    return None
                info["status"] = "maxit"
    # last iterate feasible as well
    xst = F.stacked_from_var(xs[-1], flag)
    if F.eq_defect(xst) > tolp or F.min_eig(xst) < -tolp:
        out.fail("%s:lockstep:iterate-not-feasible:%s" % (site, cls), "x_%d (returned): equality defect %.3g, min eigenvalue %.3g" % (n, F.eq_defect(xst), F.min_eig(xst)))
        return None
    return info


# ---------------------------------------------------------------- one problem

_REFMIN = {}


def reference_minimiser(S, kind, q, key):
    """KKT-certified minimiser of the same problem by an independent solve in the stacked frame: (x, f, gap) or None"""
    if key in _REFMIN:
        return _REFMIN[key]
    Lr = M.Loss(kind, S.G, np.zeros(len(q)), q)
    best = None
    for attempt in ("tight", "default"):
        xr = M.independent_solve(S, kind, q, tight=(attempt == "tight"))
        if xr is None or Lr.clip_margin(xr) < CLIP_GUARD:
            continue
        gap, c = M.gap_bound(S, False, xr, Lr.grad(xr))
        if best is None or gap < best[2]:
            best = (xr, Lr.value(xr), gap)
        if gap <= GAPREF_MAX / 100:
            break
    if len(_REFMIN) > 64:
        _REFMIN.clear()
    _REFMIN[key] = best
    return best


def ex_sequence(p, seed):
    """one loss / algorithm / estimator object over several datasets (calc_estimate_sequence, and calc_estimate repeated on the
    same objects): element i must be as good a minimiser of problem i as the estimate of a run on fresh objects (which the
    core family judges against all competitors)."""
    from quara.minimization_algorithm.projected_gradient_descent_backtracking import (
        ProjectedGradientDescentBacktracking as PGDB, ProjectedGradientDescentBacktrackingOption as PO)
    from quara.protocol.qtomography.standard.loss_minimization_estimator import LossMinimizationEstimator
    from quara.interface.cvxpy.qtomography.standard.estimator import CvxpyLossMinimizationEstimator
    from quara.interface.cvxpy.qtomography.standard.loss_function import (
        CvxpyLossFunctionOption, CvxpyRelativeEntropy, CvxpyUniformSquaredError)
    from quara.interface.cvxpy.qtomography.standard.minimization_algorithm import (
        CvxpyMinimizationAlgorithm, CvxpyMinimizationAlgorithmOption)
    out = Out()
    cfg, kind = p["cfg"], p["kind"]
    S = M.setup(cfg, seed)
    F = S.F
    sets = [M.dataset(S, d, seed) for d in p["datas"]]
    mode, nhist, eps = STOP1[0]
    nruns = 0

    def emp_of(i):
        N, qs = sets[i]
        return [(N, np.array(q, dtype=np.float64)) for q in qs]

    def compare(site, cls, route, i, v_seq, v_single, L, tol):
        out.traces += 1
        out.count("sequence_elements_compared")
        if L.clip_margin(v_seq) < CLIP_GUARD or L.clip_margin(v_single) < CLIP_GUARD:
            out.count("re_clip_touched")
            return
        fs, f1 = L.value(v_seq), L.value(v_single)
        if np.abs(v_seq - v_single).max() > 1e-9:
            out.count("sequence_element_differs_from_fresh_run")
        if fs > f1 + tol:
            out.fail("%s:%s:element-worse-than-fresh-run:%s:position=%s" % (site, route, cls, "first" if i == 0 else "later"),
                     "datasets %s element %d: loss %.10g at the estimate obtained with re-used loss/algorithm objects, %.10g at the estimate of a run "
                     "on fresh objects (allowed %.3g)" % (p["datas"], i, fs, f1, tol))

    for flag in (True, False):
        qt, (Am, Bv) = M.qt_of(S, flag)
        Ls = [M.Loss(kind, Am, Bv, np.concatenate(sets[i][1])) for i in range(len(sets))]
        for variant in ("", "_fast"):
            lossname = kind + variant
            cls = "%s:flag=%s:%s" % (cfg, flag, lossname)
            singles = []
            for i in range(len(sets)):
                ok, res = run_pgdb(S, flag, sets[i][0], sets[i][1], lossname, mode, nhist, eps)
                out.ops += 1
                singles.append(np.asarray(res.estimated_var, float).ravel() if ok else None)
            po = PO(mode_stopping_criterion_gradient_descent=MODES[mode], num_history_stopping_criterion_gradient_descent=nhist,
                    eps=eps, max_iteration_optimization=MAXIT)
            # route 1: calc_estimate_sequence
            loss, lopt = lib_objects(lossname)
            with quiet():
                ok, res = A.call(LossMinimizationEstimator().calc_estimate_sequence, qt, [emp_of(i) for i in range(len(sets))], loss, lopt, PGDB(), po)
            out.ops += 1
            got = {}
            if not ok:
                if all(s is not None for s in singles):
                    out.fail("pgdb:calc_estimate_sequence:raises:%s" % cls, "datasets %s: %s" % (p["datas"], A.fmt_exc(res)))
            else:
                seq = [np.asarray(v, float).ravel() for v in res.estimated_var_sequence]
                if len(seq) != len(sets):
                    out.fail("pgdb:calc_estimate_sequence:length:%s" % cls, "%d estimates for %d datasets" % (len(seq), len(sets)))
                else:
                    got["calc_estimate_sequence"] = seq
            # route 2: calc_estimate repeated with the same estimator, loss and algorithm objects
            loss, lopt = lib_objects(lossname)
            est, algo = LossMinimizationEstimator(), PGDB()
            seq = []
            for i in range(len(sets)):
                with quiet():
                    ok, res = A.call(est.calc_estimate, qt, emp_of(i), loss, lopt, algo, po)
                out.ops += 1
                if not ok:
                    if singles[i] is not None:
                        out.fail("pgdb:calc_estimate-repeated:raises:%s" % cls, "datasets %s element %d: %s" % (p["datas"], i, A.fmt_exc(res)))
                    seq = None
                    break
                seq.append(np.asarray(res.estimated_var, float).ravel())
            if seq is not None:
                got["calc_estimate-repeated"] = seq
            for route, seq in got.items():
                for i in range(len(sets)):
                    if singles[i] is None or seq[i].shape != singles[i].shape:
                        continue
                    nruns += 1
                    gnorm = float(np.linalg.norm(Ls[i].grad(singles[i])))
                    compare("pgdb", cls, route, i, seq[i], singles[i], Ls[i], tol_excess(mode, eps, gnorm))
    # CVXPY-backed estimator
    qt, (Am, Bv) = M.qt_of(S, True)
    Ls = [M.Loss(kind, Am, Bv, np.concatenate(sets[i][1])) for i in range(len(sets))]
    cls = "%s:%s:scs" % (cfg, kind)
    singles = []
    for i in range(len(sets)):
        ok, res = run_cvxpy(S, sets[i][0], sets[i][1], kind, SCS_EPS)
        out.ops += 1
        singles.append(np.asarray(res.estimated_var, float).ravel() if ok else None)
    loss = CvxpyUniformSquaredError() if kind == "se" else CvxpyRelativeEntropy()
    with quiet():
        ok, res = A.call(CvxpyLossMinimizationEstimator().calc_estimate_sequence, qt, [emp_of(i) for i in range(len(sets))], loss,
                         CvxpyLossFunctionOption(), CvxpyMinimizationAlgorithm(), CvxpyMinimizationAlgorithmOption("scs", eps_tol=SCS_EPS),
                         is_computation_time_required=False)
    out.ops += 1
    if not ok:
        if all(s is not None for s in singles):
            out.fail("cvxpy:calc_estimate_sequence:raises:%s" % cls, "datasets %s: %s" % (p["datas"], A.fmt_exc(res)))
    else:
        seq = [np.asarray(v, float).ravel() for v in res.estimated_var_sequence]
        for i in range(min(len(seq), len(sets))):
            if singles[i] is None or seq[i].shape != singles[i].shape:
                continue
            nruns += 1
            gnorm = float(np.linalg.norm(Ls[i].grad(singles[i])))
            compare("cvxpy", cls, "calc_estimate_sequence", i, seq[i], singles[i], Ls[i], 2 * tol_cvx(SCS_EPS, gnorm))
    out.nontrivial = nruns > 0
    inner(out, max(nruns - 1, 0))
    out.outcome = "sequence:%s:%s" % (kind, "ok" if not out.fails else "fail")
    return out


def ex_algo_reuse(p, seed):
    """the same ProjectedGradientDescentBacktracking object estimates on tomography A, then on tomography B (same number of
    variables, another parametrisation / type): B's estimate must be as good as the estimate of a fresh algorithm object"""
    from quara.minimization_algorithm.projected_gradient_descent_backtracking import (
        ProjectedGradientDescentBacktracking as PGDB, ProjectedGradientDescentBacktrackingOption as PO)
    from quara.protocol.qtomography.standard.loss_minimization_estimator import LossMinimizationEstimator
    out = Out()
    (cfga, fa), (cfgb, fb), kind = p["a"], p["b"], p["kind"]
    SA, SB = M.setup(cfga, seed), M.setup(cfgb, seed)
    mode, nhist, eps = STOP1[0]
    po = PO(mode_stopping_criterion_gradient_descent=MODES[mode], num_history_stopping_criterion_gradient_descent=nhist,
            eps=eps, max_iteration_optimization=MAXIT)
    qta, _ = M.qt_of(SA, fa)
    qtb, (Am, Bv) = M.qt_of(SB, fb)
    if qta.num_variables != qtb.num_variables:
        raise HarnessError("algo_reuse: variable counts differ")
    da = M.dataset(SA, stop_datasets(SA)[1], seed)
    n = 0
    for variant in ("", "_fast"):
        lossname = kind + variant
        cls = "%s:flag=%s->%s:flag=%s:%s" % (cfga, fa, cfgb, fb, lossname)
        for dname in stop_datasets(SB):
            N, qs = M.dataset(SB, dname, seed)
            L = M.Loss(kind, Am, Bv, np.concatenate(qs))
            ok1, single = run_pgdb(SB, fb, N, qs, lossname, mode, nhist, eps)
            algo = PGDB()
            loss, lopt = lib_objects(lossname)
            with quiet():
                oka, ra = A.call(LossMinimizationEstimator().calc_estimate, qta, [(da[0], np.array(q, dtype=np.float64)) for q in da[1]], loss, lopt, algo, po)
            loss, lopt = lib_objects(lossname)
            with quiet():
                okb, rb = A.call(LossMinimizationEstimator().calc_estimate, qtb, [(N, np.array(q, dtype=np.float64)) for q in qs], loss, lopt, algo, po)
            out.ops += 3
            if not (ok1 and oka):
                out.count("algo_reuse_skipped_base_run_raises")
                continue
            if not okb:
                out.fail("pgdb:algorithm-object-reused:raises:%s" % cls, "data %s: %s" % (dname, A.fmt_exc(rb)))
                continue
            v1 = np.asarray(single.estimated_var, float).ravel()
            v2 = np.asarray(rb.estimated_var, float).ravel()
            out.traces += 1
            out.count("algo_reuse_compared")
            n += 1
            if L.clip_margin(v1) < CLIP_GUARD or L.clip_margin(v2) < CLIP_GUARD:
                out.count("re_clip_touched")
                continue
            tol = tol_excess(mode, eps, float(np.linalg.norm(L.grad(v1))))
            if L.value(v2) > L.value(v1) + tol:
                out.fail("pgdb:algorithm-object-reused:estimate-worse-than-fresh-algorithm:%s" % cls,
                         "data %s: loss %.10g with the algorithm object used before on %s (flag %s), %.10g with a fresh one (allowed %.3g)" % (
                             dname, L.value(v2), cfga, fa, L.value(v1), tol))
    out.nontrivial = n > 0
    inner(out, max(n - 1, 0))
    out.outcome = "algo_reuse:%s:%s" % (kind, "ok" if not out.fails else "fail")
    return out


def execute(family, p, seed):
    if family == "sequence":
        return ex_sequence(p, seed)
    if family == "algo_reuse":
        return ex_algo_reuse(p, seed)
    out = Out()
    cfg, dname, kind = p["cfg"], p["data"], p["kind"]
    S = M.setup(cfg, seed)
    F = S.F
    N, qs = M.dataset(S, dname, seed)
    q = np.concatenate(qs)
    dcls = dname.split("|")[0]
    if dcls == "table" and any(float(v) == 0.0 for v in q):
        out.count("zero_count_tables")
    truth = dname.split("|")[1] if dcls in ("exact", "shots") else None
    # forward model as data + cross-check against the Born rule
    Ls = {}
    for flag in (True, False):
        qt, (Am, Bv) = M.qt_of(S, flag)
        s0, E = S.emb[flag]
        err = max(float(np.abs(Am - S.G @ E).max()), float(np.abs(Bv - S.G @ s0).max()))
        out.count("forward_model_checked")
        if err > 1e-10:
            out.fail("calc_matA/calc_vecB:differs-from-born-rule:%s:flag=%s" % (cfg, flag), "max deviation %.3g" % err)
        Ls[flag] = M.Loss(kind, Am, Bv, q)
    Lst = M.Loss(kind, S.G, np.zeros(len(q)), q)        # the same loss on stacked vectors (Born rule)
    ref = reference_minimiser(S, kind, q, (cfg, dname, kind, seed))
    if ref is None:
        out.count("reference_minimiser_unavailable")
    else:
        out.count("reference_minimisers_certified")
        bucket(out, "gapref", ref[2] / GAPREF_MAX)
        if ref[2] > GAPREF_MAX:
            out.count("reference_minimiser_loosely_certified")
        if F.min_eig(ref[0]) < 1e-6:
            out.count("boundary_minimisers")
        else:
            out.count("interior_minimisers")
    comps = M.competitors(S, truth)
    plin = M.projected_linear(S, q)
    if plin is not None:
        comps["projected-linear"] = plin
    comp_f = {}
    for n, w in comps.items():
        if Lst.clip_margin(w) >= CLIP_GUARD:
            comp_f[n] = Lst.value(w)
    sigma = Ls[True].strong_convexity()
    estimates = []     # (label, stacked estimate, tolerance, healthy)
    digs = []
    nontrivial = False

    def judge(label, cls, xs_hat, fhat, tol, tolk, gnorm, flag, v, L, cause_fn, note=""):
        """end-to-end verdicts for one estimate; returns True when it is an (approximate) minimiser"""
        site = label.split("_")[0]
        okay = True
        gb, c = M.gap_bound(S, flag, v, L.grad(v))
        bucket(out, "kkt_" + label, gb / tolk)
        cause = None
        excess = None
        if ref is not None:
            excess = fhat - ref[1]
            out.count("excess_judged")
            bucket(out, "excess_" + label, excess / tol)
        if CAL:
            with open(CAL, "a") as fh:
                fh.write("%s %s %s %s excess=%.3e tol=%.3e kkt=%.3e tolk=%.3e gnorm=%.2e gapref=%.1e\n" % (
                    site, cls, dname, family, excess if excess is not None else float("nan"), tol, gb, tolk, gnorm, ref[2] if ref else float("nan")))
        if excess is not None and excess > tol:
            # the polished solution of the independent solve is a physical object with a lower loss
            cause = cause_fn()
            out.fail("%s:not-a-minimiser:%s:%s" % (site, cause, cls),
                     "data %s: loss %.10g at the estimate, %.10g at the (physical) solution of an independent convex solve (its KKT gap %.2g); "
                     "excess %.3g > allowed %.3g; KKT residual at the estimate %.3g%s" % (dname, fhat, ref[1], ref[2], excess, tol, gb, note))
            okay = False
        elif gb <= tol or (ref is not None and ref[2] <= tol):
            out.count("kkt_certified")                    # sub-optimality <= 2 tol against ALL physical competitors
        elif gb <= tolk or (ref is not None and ref[2] <= GAPREF_MAX):
            out.count("kkt_certified_loosely")            # sub-optimality <= max(tolk, tol + GAPREF_MAX) against all competitors
        else:
            out.count("optimality_undecided")
        for n, fw in comp_f.items():
            out.count("competitors_compared")
            if fw < fhat - tol:
                if cause is None:
                    cause = cause_fn()
                out.fail("%s:competitor-has-lower-loss:%s:%s:%s" % (site, n.split(":")[0], cause, cls),
                         "data %s: physical competitor %s has loss %.10g < %.10g at the estimate (allowed %.3g)" % (dname, n, fw, fhat, tol))
                okay = False
                break
        return okay

    for flag in p["flags"]:
        L = Ls[flag]
        for variant in p["variants"]:
            lossname = kind + variant
            for stop in p["stops"]:
                mode, nhist, eps = stop
                site = "pgdb"
                cls = "%s:flag=%s:%s" % (cfg, flag, lossname)
                ok, res = run_pgdb(S, flag, N, qs, lossname, mode, nhist, eps)
                out.ops += 1
                if not ok:
                    out.fail("%s:raises:%s" % (site, cls), "data %s stop %s: %s" % (dname, stop, A.fmt_exc(res)))
                    continue
                d = res.detailed_results[0]
                ls = lockstep(out, S, flag, L, d, stop, site, cls)
                if ls is None:
                    continue
                out.traces += ls["n"]
                v = np.asarray(res.estimated_var, float).ravel()
                digs.append(v)
                if v.shape != d.x[-1].shape or np.abs(v - np.asarray(d.x[-1], float)).max() > 0:
                    out.fail("%s:result-not-last-iterate:%s" % (site, cls), "estimated_var differs from the last recorded x")
                    continue
                if ls["status"] == "clipped":
                    out.count("re_clip_touched")
                    continue
                if ls["status"] == "maxit":
                    out.count("runs_hit_max_iteration")
                    out.count("maxit:" + mode)
                    continue
                out.count("runs_stopped_by_criterion")
                out.count("stopped:" + mode)
                xs_hat = F.stacked_from_var(v, flag)
                if ls["n"] > 1 and np.abs(xs_hat - S.origin).max() > 1e-6:
                    nontrivial = True
                g = L.grad(v)
                gnorm = float(np.linalg.norm(g))
                tol = tol_excess(mode, eps, gnorm)
                tolk = tol_kkt(mode, eps, gnorm)

                def cause_fn(ls=ls):
                    if not ls["iso"]:
                        # projection in the stacked frame, gradient in reduced variables that are not a (scaled) isometry of it
                        return "non-isometric-parametrisation"
                    return "direction-not-descent" if ls["not_descent"] > 1.0 else "cause-unknown"
                note = "; the run contains steps whose direction y_k is not a descent direction (g.y + mu |y|^2 > 0)" if ls["not_descent"] > 1.0 else ""
                healthy = judge(site if ls["iso"] else site + "_noniso", cls + ":" + mode, xs_hat, L.value(v), tol, tolk, gnorm, flag, v, L, cause_fn, note)
                if ls["not_descent"] > 1.0:
                    out.count("runs_with_non_descent_direction")
                estimates.append(("pgdb:%s:%s:%s" % (cls, mode, nhist), xs_hat, tol, healthy, cause_fn() + ":" + cls))
    for eps_tol in p["cvx"]:
        site = "cvxpy"
        cls = "%s:%s:scs" % (cfg, kind)
        ok, res = run_cvxpy(S, N, qs, kind, eps_tol)
        out.ops += 1
        if not ok:
            out.fail("%s:raises:%s" % (site, cls), "data %s: %s" % (dname, A.fmt_exc(res)))
            continue
        v = np.asarray(res.estimated_var, float).ravel()
        if v.shape != (F.num_var(True),) or not np.all(np.isfinite(v)):
            out.fail("%s:estimate-malformed:%s" % (site, cls), "data %s: %r" % (dname, v))
            continue
        L = Ls[True]
        if L.clip_margin(v) < CLIP_GUARD:
            out.count("re_clip_touched")
            continue
        xs_hat = F.stacked_from_var(v, True)
        g = L.grad(v)
        gnorm = float(np.linalg.norm(g))
        tol = tol_cvx(eps_tol, gnorm)
        out.count("cvxpy_runs_judged")
        me = F.min_eig(xs_hat)
        bucket(out, "cvx_feas", max(0.0, -me) / (1e2 * eps_tol))
        healthy = True
        if me < -1e2 * eps_tol:
            out.fail("%s:estimate-not-physical:%s" % (site, cls), "data %s: min eigenvalue %.3g (allowed %.3g)" % (dname, me, -1e2 * eps_tol))
            healthy = False
        healthy = judge(site, cls, xs_hat, L.value(v), tol, 1e3 * tol, gnorm, True, v, L, lambda: "cause-unknown") and healthy
        # the loss value reported by the estimator: the same loss up to the documented schedule weights n_i / n_total
        lv = res.estimated_loss_sequence[0]
        if lv is not None and abs(float(lv) * S.nsched - L.value(v)) > 1e-6 * max(1.0, abs(L.value(v))) and kind == "se":
            out.fail("%s:reported-loss-differs-from-reference:%s" % (site, cls), "data %s: reported %.10g x %d schedules vs reference %.10g" % (dname, lv, S.nsched, L.value(v)))
        # agreement with the backtracking estimates of the same problem
        for (label, xb, tolb, hb, clsb) in estimates:
            out.count("agreement_pairs")
            fa, fb = Lst.value(xs_hat), Lst.value(xb)
            if not (healthy and hb):
                continue        # already reported as not optimal
            if abs(fa - fb) > tol + tolb:
                out.fail("pgdb-vs-cvxpy:losses-differ:%s" % clsb, "data %s: %.10g (cvxpy) vs %.10g (%s), allowed %.3g" % (dname, fa, fb, label, tol + tolb))
            if sigma > 1e-6:
                out.count("agreement_positions")
                va, vb = F.var_from_stacked(xs_hat, True), F.var_from_stacked(xb, True)
                dist = float(np.linalg.norm(va - vb))
                allowed = math.sqrt(2 * (tol + (ref[2] if ref else 0)) / sigma) + math.sqrt(2 * (tolb + (ref[2] if ref else 0)) / sigma) + 2 * CPROJ * FLOOR
                bucket(out, "agree", dist / allowed)
                if dist > allowed:
                    out.fail("pgdb-vs-cvxpy:estimates-differ:%s" % clsb, "data %s: distance %.3g > %.3g implied by the two optimality tolerances and strong convexity %.3g (%s)" % (
                        dname, dist, allowed, sigma, label))
            else:
                out.count("agreement_position_skipped_flat_loss")
    out.nontrivial = nontrivial
    out.outcome = "%s:%s:%s" % (dcls, kind, "ok" if not out.fails else "fail")
    out.digest = A.digest(*digs) if digs else ""
    return out
