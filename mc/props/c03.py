"""C03 Optimisation variables and objects are in one-to-one correspondence.

E1 over type x flag x outcome count x system: the variable <-> object maps are affine, so they are
decided on a complete affine basis of variable space (0 and every e_k) plus generic vectors, against a
reference parametrisation that is written here from a boolean "free entry" mask (no index arithmetic
shared with the library).  Every variable index of every configuration is walked for the index maps and
calc_gradient; SetQOperations is walked over every ordered operation set up to the length bound and
every total index of each set.
"""
import itertools
import math

import numpy as np

from mc import alphabet as A, refmodel as R
from mc.core import Out, inner

ID = "C03"
RULE = ("one element = one (type, flag, outcome count / shape, system, variable vector or variable index) or one "
        "(operation set, total index); variable vectors are 0, every unit vector e_k of variable space, every unit "
        "vector of stacked-vector space (flag=True: dropped implied part), 2 generic vectors and a planted 1000+arange; "
        "a case is non-trivial when the variable vector is non-zero / the operation set is non-empty")
ASSUMPTIONS = [
    "the variable <-> object maps are affine, so 0 + all e_k decide them; the generic and planted vectors guard the affinity itself",
    "the variable order inside one object is the row-major order of the free (non-implied) entries; the total variable of a "
    "SetQOperations is states, gates, povms, mprocesses in list order (documented in qoperations.py)",
    "object -> var -> object is only asserted for objects that satisfy the built-in equality constraint when flag=True "
    "(other objects are not in the image of the parametrisation); for them only 'to_var drops the implied part' is asserted",
    "attributes compared on regenerated objects: type, composite system identity, on_para_eq_constraint, numeric content, "
    "outcome count, MProcess.shape, Povm.nums_local_outcomes; mode_proj_order / eps_* are documented to be reset",
    "aliasing between a variable vector and the generated object is not examined",
]
BOUNDS = {
    "quick": "systems Q1,Q3,Q2,Q6,D2,2,2 (d=2,3,4,6,8); m in 2..5 (+ MProcess shape (2,2), (2,3)); all variable / stacked "
             "indices; SetQOperations: every ordered set of <= 4 operations of a 10-item alphabet on Q1, <= 3 on Q3 and Q2, "
             "<= 3 of a 10-item mixed-system alphabet; every total index; tomography classes on d=2,3,4,6",
    "thorough": "quick systems + D3,3 (d=9) + D2,3,2 (d=12, MProcess only m in 2..3), m in 2..5 (+ shapes); all variable / stacked indices; "
                "SetQOperations: <= 5 operations on Q1, <= 4 on Q3, Q2 and the mixed-system alphabet; every total index; "
                "tomography classes on d=2,3,4,6,8,9",
}
EXHAUSTIVE = {"quick": True, "thorough": True}
CASE_TIMEOUT = 900
CHUNK_VECTORS = 512

TYPES = ("state", "povm", "gate", "mprocess")
TOL = 1e-9


# ---- reference parametrisation (independent of the library) -------------------------------------------

def ref_shape(typ, m, n):
    return {"state": (n,), "povm": (m, n), "gate": (n, n), "mprocess": (m, n, n)}[typ]


_REF = {}


def ref_tables(typ, flag, m, d):
    """mask (True = free entry = one variable), entries[k] = index tuple of variable k, labels (entry -> k or -1)"""
    key = (typ, bool(flag), m, d)
    if key in _REF:
        return _REF[key]
    n = d * d
    mask = np.ones(ref_shape(typ, m, n), dtype=bool)
    if flag:
        if typ == "state":
            mask[0] = False              # first coefficient is implied: 1/sqrt(d)
        elif typ == "povm":
            mask[m - 1, :] = False       # last element is implied: sqrt(d) e0 - sum of the others
        elif typ == "gate":
            mask[0, :] = False           # first HS row is implied: e0
        else:
            mask[m - 1, 0, :] = False    # first row of the last HS is implied: e0 - sum of the other first rows
    entries = [tuple(int(x) for x in e) for e in np.argwhere(mask)]
    labels = np.full(mask.shape, -1, dtype=np.int64)
    labels[mask] = np.arange(len(entries))
    _REF[key] = (mask, entries, labels)
    return _REF[key]


def ref_nvar(typ, flag, m, d):
    return int(ref_tables(typ, flag, m, d)[0].sum())


def ref_from_var(typ, flag, m, d, v):
    mask, _, _ = ref_tables(typ, flag, m, d)
    n = d * d
    content = np.zeros(mask.shape, dtype=np.float64)
    content[mask] = np.asarray(v, dtype=np.float64)
    if flag:
        e0 = np.zeros(n)
        e0[0] = 1.0
        if typ == "state":
            content[0] = 1.0 / math.sqrt(d)
        elif typ == "povm":
            acc = math.sqrt(d) * e0
            for x in range(m - 1):
                acc = acc - content[x]
            content[m - 1] = acc
        elif typ == "gate":
            content[0] = e0
        else:
            acc = e0.copy()
            for x in range(m - 1):
                acc = acc - content[x, 0]
            content[m - 1, 0] = acc
    return content


def ref_to_var(typ, flag, m, d, content):
    mask, _, _ = ref_tables(typ, flag, m, d)
    return np.asarray(content, dtype=np.float64)[mask]


def generic_vec(n, seed, salt):
    a = np.array(R.angles(seed, 8, salt))
    idx = np.arange(n)
    return np.sin(a[idx % 8] * (1 + idx // 8) + 0.1 * idx + salt)


def planted(n):
    return 1000.0 + np.arange(n, dtype=np.float64)


# ---- library adapters -----------------------------------------------------------------------------------

_SYS = {}


def system(tag):
    if tag not in _SYS:
        _SYS[tag] = A.make_system(tag)
    return _SYS[tag]


def lib_class(typ):
    if typ == "state":
        from quara.objects.state import State
        return State
    if typ == "povm":
        from quara.objects.povm import Povm
        return Povm
    if typ == "gate":
        from quara.objects.gate import Gate
        return Gate
    from quara.objects.mprocess import MProcess
    return MProcess


def lib_module(typ):
    import importlib
    return importlib.import_module("quara.objects." + typ)


def construct(typ, c, content, flag, shape=None):
    """public constructor, physicality not required"""
    cls = lib_class(typ)
    content = np.array(content, dtype=np.float64)
    if typ == "state":
        return cls(c, content, is_physicality_required=False, on_para_eq_constraint=flag)
    if typ == "povm":
        return cls(c, [row.copy() for row in content], is_physicality_required=False, on_para_eq_constraint=flag)
    if typ == "gate":
        return cls(c, content, is_physicality_required=False, on_para_eq_constraint=flag)
    return cls(c, [hs.copy() for hs in content], shape=tuple(shape) if shape else None,
               is_physicality_required=False, on_para_eq_constraint=flag)


def content_of(typ, obj):
    if typ == "state":
        return np.array(obj.vec, dtype=np.float64)
    if typ == "povm":
        return np.array([np.asarray(v) for v in obj.vecs], dtype=np.float64)
    if typ == "gate":
        return np.array(obj.hs, dtype=np.float64)
    return np.array([np.asarray(h) for h in obj.hss], dtype=np.float64)


def lib_var_to_content(typ, c, v, flag):
    mod = lib_module(typ)
    if typ == "state":
        return np.asarray(mod.convert_var_to_vec(c, v, flag))
    if typ == "povm":
        res = mod.convert_var_to_vecs(c, v, flag)
        if not isinstance(res, list):
            raise TypeError("convert_var_to_vecs returned %s, not a list" % type(res).__name__)
        return np.array(res, dtype=np.float64)
    if typ == "gate":
        return np.asarray(mod.convert_var_to_hs(c, v, flag))
    res = mod.convert_var_to_hss(c, v, flag)
    if not isinstance(res, list):
        raise TypeError("convert_var_to_hss returned %s, not a list" % type(res).__name__)
    return np.array(res, dtype=np.float64)


def lib_content_to_var(typ, c, content, flag):
    mod = lib_module(typ)
    if typ == "state":
        return mod.convert_vec_to_var(c, content.copy(), flag)
    if typ == "povm":
        return mod.convert_vecs_to_var(c, [row.copy() for row in content], flag)
    if typ == "gate":
        return mod.convert_hs_to_var(c, content.copy(), flag)
    return mod.convert_hss_to_var(c, [hs.copy() for hs in content], flag)


def lib_var_to_obj_func(typ, c, v, flag):
    """module level convert_var_to_<object> (MProcess has none)"""
    mod = lib_module(typ)
    fn = {"state": "convert_var_to_state", "povm": "convert_var_to_povm", "gate": "convert_var_to_gate"}[typ]
    return getattr(mod, fn)(c, v, is_physicality_required=False, on_para_eq_constraint=flag)


def lib_vidx_to_oidx(typ, c, obj, k, flag):
    mod = lib_module(typ)
    if typ == "state":
        r = (mod.convert_var_index_to_state_index(k, flag),)
    elif typ == "povm":
        r = mod.convert_var_index_to_povm_index(c, list(obj.vecs), k, flag)
    elif typ == "gate":
        r = mod.convert_var_index_to_gate_index(c, k, flag)
    else:
        r = mod.convert_var_index_to_mprocess_index(c, obj.hss, k, flag)
    return tuple(int(x) for x in r)


def lib_oidx_to_vidx(typ, c, obj, idx, flag):
    mod = lib_module(typ)
    if typ == "state":
        r = mod.convert_state_index_to_var_index(idx[0], flag)
    elif typ == "povm":
        r = mod.convert_povm_index_to_var_index(c, list(obj.vecs), tuple(idx), flag)
    elif typ == "gate":
        r = mod.convert_gate_index_to_var_index(c, tuple(idx), flag)
    else:
        r = mod.convert_mprocess_index_to_var_index(c, tuple(idx), obj.hss, flag)
    return int(r)


def close(a, b, scale):
    try:
        a = np.asarray(a, dtype=np.float64)
    except Exception:
        return False
    b = np.asarray(b, dtype=np.float64)
    if a.shape != b.shape:
        return False
    if a.size == 0:
        return True
    return bool(np.abs(a - b).max() <= TOL * scale)


class Cfg:
    def __init__(self, p):
        self.typ = p["typ"]
        self.flag = bool(p["flag"])
        self.m = int(p["m"])
        self.sys = p["sys"]
        self.shape = tuple(p["shape"]) if p.get("shape") else None
        self.c = system(self.sys)
        self.d = int(self.c.dim)
        self.n = self.d * self.d
        self.mask, self.entries, self.labels = ref_tables(self.typ, self.flag, self.m, self.d)
        self.nvar = len(self.entries)
        self.nstack = int(self.mask.size)
        self.cls = lib_class(self.typ)
        self.tag = "%s:%s" % (self.typ, "eq" if self.flag else "noeq")

    def describe(self):
        return "type=%s flag=%s m=%d shape=%r sys=%s(d=%d)" % (self.typ, self.flag, self.m, self.shape, self.sys, self.d)

    def from_var(self, v, flag=None):
        return ref_from_var(self.typ, self.flag if flag is None else flag, self.m, self.d, v)


class Fails:
    """one failure per signature per case (the runner shows at most two per signature anyway)"""

    def __init__(self, out):
        self.out = out
        self.seen = set()

    def __call__(self, sig, msg):
        if sig not in self.seen:
            self.seen.add(sig)
            self.out.fail(sig, msg)


def config_list(tier):
    systems = ["Q1", "Q3", "Q2", "Q6", "D2,2,2"] + (["D3,3", "D2,3,2"] if tier == "thorough" else [])
    cfgs = []
    for s in systems:
        for flag in (True, False):
            cfgs.append({"typ": "state", "flag": flag, "m": 0, "sys": s, "shape": None})
            cfgs.append({"typ": "gate", "flag": flag, "m": 0, "sys": s, "shape": None})
            for m in (2, 3, 4, 5):
                cfgs.append({"typ": "povm", "flag": flag, "m": m, "sys": s, "shape": None})
                if m <= 3 or s != "D2,3,2":      # d=12: 20736 entries per HS matrix, m <= 3 keeps the tier in budget
                    cfgs.append({"typ": "mprocess", "flag": flag, "m": m, "sys": s, "shape": None})
            if s != "D2,3,2":
                cfgs.append({"typ": "mprocess", "flag": flag, "m": 4, "sys": s, "shape": [2, 2]})
            if s in ("Q1", "Q3"):
                cfgs.append({"typ": "mprocess", "flag": flag, "m": 6, "sys": s, "shape": [2, 3]})
    return cfgs


def dim_of_tag(tag):
    if tag.startswith("D"):
        return int(np.prod([int(x) for x in tag[1:].split(",")]))
    return A.dim_of(tag)


# ---- family (a): round trips ----------------------------------------------------------------------------

def check_var_vector(cf, out, fail, v, templates, label):
    """v: a variable vector of configuration cf.  All conversion routes against the reference content."""
    typ, c, flag = cf.typ, cf.c, cf.flag
    content = cf.from_var(v)
    stack = content.ravel()
    scale = max(1.0, float(np.abs(v).max(initial=0.0)), float(np.abs(content).max(initial=0.0)))
    where = "%s vector=%s" % (cf.describe(), label)
    out.traces += 1

    ok, val = A.call(lib_var_to_content, typ, c, v.copy(), flag)
    out.ops += 1
    if not ok:
        fail("convert_var_to_content:raises:%s" % cf.tag, "%s: %s" % (where, A.fmt_exc(val)))
    elif not close(val, content, scale):
        fail("convert_var_to_content:wrong-object:%s" % cf.tag, "%s: got %r expected %r" % (where, np.asarray(val).ravel()[:12], stack[:12]))

    ok, val = A.call(lib_content_to_var, typ, c, content, flag)
    out.ops += 1
    if not ok:
        fail("convert_content_to_var:raises:%s" % cf.tag, "%s: %s" % (where, A.fmt_exc(val)))
    elif not close(val, v, scale):
        fail("convert_content_to_var:wrong-var:%s" % cf.tag, "%s: got %r expected %r" % (where, np.asarray(val)[:12], v[:12]))

    ok, val = A.call(cf.cls.convert_var_to_stacked_vector, c, v.copy(), flag)
    out.ops += 1
    if not ok:
        fail("convert_var_to_stacked_vector:raises:%s" % cf.tag, "%s: %s" % (where, A.fmt_exc(val)))
    elif not close(val, stack, scale):
        fail("convert_var_to_stacked_vector:wrong-vector:%s" % cf.tag, "%s: got %r expected %r" % (where, np.asarray(val)[:12], stack[:12]))

    ok, val = A.call(cf.cls.convert_stacked_vector_to_var, c, stack.copy(), flag)
    out.ops += 1
    if not ok:
        fail("convert_stacked_vector_to_var:raises:%s" % cf.tag, "%s: %s" % (where, A.fmt_exc(val)))
    elif not close(val, v, scale):
        fail("convert_stacked_vector_to_var:wrong-var:%s" % cf.tag, "%s: got %r expected %r" % (where, np.asarray(val)[:12], v[:12]))

    if typ != "mprocess":
        ok, val = A.call(lib_var_to_obj_func, typ, c, v.copy(), flag)
        out.ops += 1
        if not ok:
            fail("convert_var_to_object:raises:%s" % cf.tag, "%s: %s" % (where, A.fmt_exc(val)))
        else:
            check_object(cf, fail, val, content, v, scale, "convert_var_to_object", where)

    for tname, tmpl, override in templates:
        ok, obj = A.call(tmpl.generate_from_var, v.copy(), on_para_eq_constraint=override)
        out.ops += 1
        site = "generate_from_var" if tname == "same" else "generate_from_var(flag-override)"
        if not ok:
            fail("%s:raises:%s" % (site, cf.tag), "%s: %s" % (where, A.fmt_exc(obj)))
            continue
        check_object(cf, fail, obj, content, v, scale, site, where)
        ok, val = A.call(obj.to_var)
        out.ops += 1
        if not ok:
            fail("to_var:raises:%s" % cf.tag, "%s: %s" % (where, A.fmt_exc(val)))
        else:
            if not close(val, v, scale):
                fail("to_var:var-object-var:%s" % cf.tag, "%s (%s): to_var(generate_from_var(v)) = %r, v = %r" % (where, site, np.asarray(val)[:12], v[:12]))
            if len(np.asarray(val)) != cf.nvar:
                fail("to_var:length:%s" % cf.tag, "%s: len(to_var) = %d, number of variables = %d" % (where, len(np.asarray(val)), cf.nvar))
        ok, val = A.call(obj.to_stacked_vector)
        out.ops += 1
        if not ok:
            fail("to_stacked_vector:raises:%s" % cf.tag, "%s: %s" % (where, A.fmt_exc(val)))
        elif not close(val, stack, scale):
            fail("to_stacked_vector:wrong-vector:%s" % cf.tag, "%s: got %r expected %r" % (where, np.asarray(val)[:12], stack[:12]))

    # object -> var -> object, starting from an object built by the public constructor
    obj2 = construct(typ, c, content, flag, cf.shape)
    ok, v2 = A.call(obj2.to_var)
    out.ops += 1
    if not ok:
        fail("to_var:raises:%s" % cf.tag, "%s: %s" % (where, A.fmt_exc(v2)))
    else:
        if not close(v2, v, scale):
            fail("to_var:wrong-var:%s" % cf.tag, "%s: constructed object to_var = %r, expected %r" % (where, np.asarray(v2)[:12], v[:12]))
        ok, obj3 = A.call(obj2.generate_from_var, np.array(v2, dtype=np.float64))
        out.ops += 1
        if not ok:
            fail("generate_from_var:raises:%s" % cf.tag, "%s (object-var-object): %s" % (where, A.fmt_exc(obj3)))
        else:
            check_object(cf, fail, obj3, content_of(typ, obj2), v, scale, "generate_from_var(object-var-object)", where)
    return content


def check_object(cf, fail, obj, content, v, scale, site, where):
    typ = cf.typ
    if type(obj) is not cf.cls:
        fail("%s:wrong-type:%s" % (site, cf.tag), "%s: %s" % (where, type(obj).__name__))
        return
    if obj.composite_system is not cf.c:
        fail("%s:composite-system:%s" % (site, cf.tag), "%s: regenerated object lives on another CompositeSystem" % where)
    if bool(obj.on_para_eq_constraint) != cf.flag:
        fail("%s:flag-attribute:%s" % (site, cf.tag), "%s: on_para_eq_constraint = %r" % (where, obj.on_para_eq_constraint))
    got = content_of(typ, obj)
    if not close(got, content, scale):
        bad = "shape %r vs %r" % (got.shape, content.shape)
        if got.shape == content.shape:
            pos = np.argwhere(np.abs(got - content) > TOL * scale)
            bad = "first differing entry %r: got %r expected %r (%d entries differ)" % (
                tuple(pos[0]), got[tuple(pos[0])], content[tuple(pos[0])], len(pos))
        fail("%s:wrong-object:%s" % (site, cf.tag), "%s: %s" % (where, bad))
    if typ in ("povm", "mprocess") and obj.num_outcomes != cf.m:
        fail("%s:num-outcomes:%s" % (site, cf.tag), "%s: num_outcomes = %r" % (where, obj.num_outcomes))
    if typ == "mprocess":
        want = cf.shape if cf.shape else (cf.m,)
        if tuple(obj.shape) != tuple(want) and site != "convert_var_to_object":
            fail("%s:shape:%s" % (site, cf.tag), "%s: shape = %r, expected %r" % (where, obj.shape, want))


def check_stacked_drop(cf, out, fail, s, label):
    """flag=True: a stacked vector / object that need not satisfy the equality constraint -> var drops the implied part"""
    typ, c = cf.typ, cf.c
    want = s[cf.mask.ravel()]
    content = s.reshape(cf.mask.shape)
    scale = max(1.0, float(np.abs(s).max(initial=0.0)))
    where = "%s stacked=%s" % (cf.describe(), label)
    out.traces += 1
    ok, val = A.call(cf.cls.convert_stacked_vector_to_var, c, s.copy(), True)
    out.ops += 1
    if not ok:
        fail("convert_stacked_vector_to_var:raises:%s" % cf.tag, "%s: %s" % (where, A.fmt_exc(val)))
    elif not close(val, want, scale):
        fail("convert_stacked_vector_to_var:wrong-drop:%s" % cf.tag, "%s: got %r expected %r" % (where, np.asarray(val)[:12], want[:12]))
    ok, val = A.call(lib_content_to_var, typ, c, content, True)
    out.ops += 1
    if not ok:
        fail("convert_content_to_var:raises:%s" % cf.tag, "%s: %s" % (where, A.fmt_exc(val)))
    elif not close(val, want, scale):
        fail("convert_content_to_var:wrong-drop:%s" % cf.tag, "%s: got %r expected %r" % (where, np.asarray(val)[:12], want[:12]))
    obj = construct(typ, c, content, True, cf.shape)
    ok, val = A.call(obj.to_var)
    out.ops += 1
    if not ok:
        fail("to_var:raises:%s" % cf.tag, "%s: %s" % (where, A.fmt_exc(val)))
    elif not close(val, want, scale):
        fail("to_var:wrong-drop:%s" % cf.tag, "%s: got %r expected %r" % (where, np.asarray(val)[:12], want[:12]))
    ok, val = A.call(obj.to_stacked_vector)
    out.ops += 1
    if not ok:
        fail("to_stacked_vector:raises:%s" % cf.tag, "%s: %s" % (where, A.fmt_exc(val)))
    elif not close(val, s, scale):
        fail("to_stacked_vector:wrong-vector:%s" % cf.tag, "%s: got %r expected %r" % (where, np.asarray(val)[:12], s[:12]))


def ex_roundtrip(p, seed):
    out = Out()
    fail = Fails(out)
    cf = Cfg(p)
    lo, hi = p["lo"], p["hi"]
    zeros = np.zeros(cf.mask.shape)
    other = not cf.flag
    templates = [("same", construct(cf.typ, cf.c, zeros, cf.flag, cf.shape), None),
                 ("other", construct(cf.typ, cf.c, zeros, other, cf.shape), cf.flag)]
    n = 0
    acc = 0.0
    implied0 = cf.from_var(np.zeros(cf.nvar))[~cf.mask]
    if lo == 0:
        extra = [("zero", np.zeros(cf.nvar)), ("generic1", generic_vec(cf.nvar, seed, 1)),
                 ("generic2", 3.0 * generic_vec(cf.nvar, seed, 2)), ("planted", planted(cf.nvar))]
        for label, v in extra:
            content = check_var_vector(cf, out, fail, v, templates, label)
            acc += float(content.sum())
            n += 1
            out.count("rt_extra_vectors")
            if cf.flag and np.abs(content[~cf.mask] - implied0).max(initial=0.0) > 1e-6:
                out.count("implied_depends_on_var:%s" % cf.typ)
        if cf.flag:
            check_stacked_drop(cf, out, fail, generic_vec(cf.nstack, seed, 3), "generic")
            n += 1
    for j in range(lo, hi):
        if j < cf.nvar:
            v = np.zeros(cf.nvar)
            v[j] = 1.0
            content = check_var_vector(cf, out, fail, v, templates, "e_%d" % j)
            acc += float(content.sum()) * (j + 1)
            n += 1
            out.count("rt_basis_vectors")
            if cf.flag and np.abs(content[~cf.mask] - implied0).max(initial=0.0) > 1e-6:
                out.count("implied_depends_on_var:%s" % cf.typ)
        if cf.flag:
            s = np.zeros(cf.nstack)
            s[j] = 1.0
            check_stacked_drop(cf, out, fail, s, "e_%d" % j)
            n += 1
            out.count("rt_stacked_vectors")
            if not cf.mask.ravel()[j]:
                out.count("rt_stacked_implied_position")
    inner(out, n - 1)
    out.count("cfg:%s" % cf.tag)
    out.count("m=%d" % cf.m)
    out.count("sys:%s" % cf.sys)
    if cf.shape:
        out.count("mprocess_multi_shape")
    out.digest = A.digest(np.array([acc]))
    out.outcome = "%s:%s" % (cf.tag, "ok" if not out.fails else "fail")
    return out


# ---- family (b): index maps, planted values, calc_gradient ---------------------------------------------------

def ex_indices(p, seed):
    out = Out()
    fail = Fails(out)
    cf = Cfg(p)
    typ, c, flag = cf.typ, cf.c, cf.flag
    lo, hi = p["lo"], p["hi"]
    tmpl = construct(typ, c, cf.from_var(generic_vec(cf.nvar, seed, 4)), flag, cf.shape)
    plant = planted(cf.nvar)
    ok, pobj = A.call(tmpl.generate_from_var, plant.copy())
    out.ops += 1
    pcontent = None
    if not ok:
        fail("generate_from_var:raises:%s" % cf.tag, "%s planted: %s" % (cf.describe(), A.fmt_exc(pobj)))
    else:
        pcontent = content_of(typ, pobj)
    image = {}
    for k in range(lo, hi):
        want = cf.entries[k]
        where = "%s var_index=%d" % (cf.describe(), k)
        out.traces += 1
        ok, idx = A.call(lib_vidx_to_oidx, typ, c, tmpl, k, flag)
        out.ops += 1
        if not ok:
            fail("convert_var_index_to_object_index:raises:%s" % cf.tag, "%s: %s" % (where, A.fmt_exc(idx)))
            idx = None
        else:
            if idx != want:
                fail("convert_var_index_to_object_index:wrong-entry:%s" % cf.tag, "%s: got %r, the variable lives at %r" % (where, idx, want))
            if idx in image:
                fail("convert_var_index_to_object_index:not-injective:%s" % cf.tag, "%s and var_index=%d both map to %r" % (where, image[idx], idx))
            image[idx] = k
            inb = len(idx) == len(cf.mask.shape) and all(0 <= a < b for a, b in zip(idx, cf.mask.shape))
            if not inb:
                fail("convert_var_index_to_object_index:out-of-range:%s" % cf.tag, "%s: got %r for object shape %r" % (where, idx, cf.mask.shape))
            elif pcontent is not None and pcontent.shape == cf.mask.shape and abs(pcontent[idx] - plant[k]) > TOL * plant[k]:
                fail("convert_var_index_to_object_index:planted-value:%s" % cf.tag,
                     "%s: entry %r of generate_from_var(1000+arange) holds %r, the variable is %r" % (where, idx, pcontent[idx], plant[k]))
            ok, back = A.call(lib_oidx_to_vidx, typ, c, tmpl, idx, flag)
            out.ops += 1
            if not ok:
                fail("convert_object_index_to_var_index:raises:%s" % cf.tag, "%s: %s" % (where, A.fmt_exc(back)))
            elif back != k:
                fail("convert_object_index_to_var_index:not-inverse:%s" % cf.tag, "%s: var -> %r -> %r" % (where, idx, back))
        ok, back = A.call(lib_oidx_to_vidx, typ, c, tmpl, want, flag)
        out.ops += 1
        if not ok:
            fail("convert_object_index_to_var_index:raises:%s" % cf.tag, "%s: %s" % (where, A.fmt_exc(back)))
        elif back != k:
            fail("convert_object_index_to_var_index:wrong-var-index:%s" % cf.tag, "%s: entry %r -> %r" % (where, want, back))
        ok, g = A.call(tmpl.calc_gradient, k)
        out.ops += 1
        if not ok:
            fail("calc_gradient:raises:%s" % cf.tag, "%s: %s" % (where, A.fmt_exc(g)))
        else:
            onehot = np.zeros(cf.mask.shape)
            onehot[want] = 1.0
            check_object(cf, fail, g, onehot, None, 1.0, "calc_gradient", where)
            out.count("grad_checked")
        out.count("idx_checked")
        if int(np.ravel_multi_index(want, cf.mask.shape)) != k:
            out.count("idx_shifted_by_implied_part")
    inner(out, hi - lo - 1)
    out.count("cfg:%s" % cf.tag)
    out.digest = A.digest(np.array(sorted(image.values())))
    out.outcome = "%s:%s" % (cf.tag, "ok" if not out.fails else "fail")
    return out


# ---- family (c): num_variables of the tomography classes -------------------------------------------------------

_TESTERS = {}


def testers(tag, seed):
    key = (tag, seed)
    if key not in _TESTERS:
        c = system(tag)
        d = int(c.dim)
        st = A.states_ref(d, seed)
        pv = A.povms_ref(d, seed, ms=(2, 3))
        _TESTERS[key] = ([A.q_state(c, st["pure_generic"]), A.q_state(c, st["mixed_generic"])],
                         [A.q_povm(c, pv["generic_m2"]), A.q_povm(c, pv["generic_m3"])])
    return _TESTERS[key]


def ex_numvars(p, seed):
    from quara.protocol.qtomography.standard.standard_qst import StandardQst
    from quara.protocol.qtomography.standard.standard_povmt import StandardPovmt
    from quara.protocol.qtomography.standard.standard_qpt import StandardQpt
    from quara.protocol.qtomography.standard.standard_qmpt import StandardQmpt
    out = Out()
    fail = Fails(out)
    cls, flag, tag, m = p["cls"], bool(p["flag"]), p["sys"], int(p["m"])
    typ = {"qst": "state", "povmt": "povm", "qpt": "gate", "qmpt": "mprocess"}[cls]
    cf = Cfg({"typ": typ, "flag": flag, "m": m, "sys": tag, "shape": None})
    states, povms = testers(tag, seed)

    def make():
        if cls == "qst":
            return StandardQst(povms, on_para_eq_constraint=flag)
        if cls == "povmt":
            return StandardPovmt(states, m, on_para_eq_constraint=flag)
        if cls == "qpt":
            return StandardQpt(states, povms, on_para_eq_constraint=flag)
        return StandardQmpt(states, povms, m, on_para_eq_constraint=flag)

    sigc = "%s:%s" % (cls, "eq" if flag else "noeq")
    where = "%s %s" % (cls, cf.describe())
    ok, qt = A.call(make)
    out.ops += 1
    if not ok:
        fail("tomography:constructor-raises:%s" % sigc, "%s: %s" % (where, A.fmt_exc(qt)))
        out.outcome = "fail"
        return out
    nv = qt.num_variables
    out.traces += 1
    if nv != cf.nvar:
        fail("num_variables:wrong-count:%s" % sigc, "%s: num_variables = %r, the parametrisation has %d variables" % (where, nv, cf.nvar))
    ok, tmpl = A.call(qt.generate_empty_estimation_obj_with_setting_info)
    out.ops += 1
    if not ok:
        fail("generate_empty_estimation_obj_with_setting_info:raises:%s" % sigc, "%s: %s" % (where, A.fmt_exc(tmpl)))
    else:
        lv = len(tmpl.to_var())
        if lv != nv:
            fail("num_variables:differs-from-template-var:%s" % sigc, "%s: num_variables = %r, len(template.to_var()) = %d" % (where, nv, lv))
        if type(tmpl) is not cf.cls or bool(tmpl.on_para_eq_constraint) != flag:
            fail("num_variables:template-kind:%s" % sigc, "%s: template %s flag %r" % (where, type(tmpl).__name__, tmpl.on_para_eq_constraint))
    ops_of = {"state": qt.set_qoperations.states, "povm": qt.set_qoperations.povms, "gate": qt.set_qoperations.gates,
              "mprocess": qt.set_qoperations.mprocesses}[typ]
    tot = qt.set_qoperations.size_var_total()
    out.ops += 1
    if len(ops_of) != 1 or tot != nv or len(ops_of[0].to_var()) != nv:
        fail("num_variables:differs-from-set-qoperations:%s" % sigc, "%s: num_variables = %r, size_var_total = %r" % (where, nv, tot))
    v = planted(cf.nvar)
    ok, obj = A.call(qt.convert_var_to_qoperation, v.copy())
    out.ops += 1
    if not ok:
        fail("convert_var_to_qoperation:raises:%s" % sigc, "%s: %s" % (where, A.fmt_exc(obj)))
    else:
        check_object(cf, fail, obj, cf.from_var(v), v, float(v.max()), "convert_var_to_qoperation", where)
        ok, v2 = A.call(obj.to_var)
        if not ok or not close(v2, v, float(v.max())):
            fail("convert_var_to_qoperation:to_var:%s" % sigc, "%s: to_var does not give the variable back" % where)
    out.count("nv_checked:%s" % cls)
    out.outcome = "%s:%s" % (sigc, "ok" if not out.fails else "fail")
    return out


# ---- family (d): SetQOperations ------------------------------------------------------------------------------------

def set_alphabet(tag):
    return [("state", 0, True, tag, None), ("state", 0, False, tag, None), ("gate", 0, True, tag, None), ("gate", 0, False, tag, None),
            ("povm", 2, True, tag, None), ("povm", 2, False, tag, None), ("povm", 3, True, tag, None), ("povm", 3, False, tag, None),
            ("mprocess", 2, True, tag, None), ("mprocess", 2, False, tag, None)]


MIXED_ALPHABET = [("state", 0, True, "Q3", None), ("state", 0, False, "Q2", None), ("gate", 0, True, "Q3", None),
                  ("gate", 0, False, "Q1", None), ("povm", 4, True, "Q3", None), ("povm", 5, False, "Q1", None),
                  ("povm", 2, True, "Q2", None), ("mprocess", 3, True, "Q1", None), ("mprocess", 2, False, "Q3", None),
                  ("mprocess", 4, True, "Q1", [2, 2])]
MODE_ORDER = ("state", "gate", "povm", "mprocess")


def alphabet_of(name):
    return MIXED_ALPHABET if name == "mixed" else set_alphabet(name)


def ordered_sets(alpha, maxlen):
    """every distinct SetQOperations content: one ordered sequence per type list, total length <= maxlen"""
    seen, res = set(), []
    for L in range(0, maxlen + 1):
        for tup in itertools.product(range(len(alpha)), repeat=L):
            canon = tuple(code for mode in MODE_ORDER for code in tup if alpha[code][0] == mode)
            if canon not in seen:
                seen.add(canon)
                res.append(list(canon))
    return res


def ex_setqops(p, seed):
    from quara.objects.qoperations import SetQOperations
    out = Out()
    fail = Fails(out)
    alpha = alphabet_of(p["alphabet"])
    seq = p["seq"]
    lists = {mode: [] for mode in MODE_ORDER}
    layout = []   # (mode, index in list, Cfg, ref var)
    for pos, code in enumerate(seq):
        typ, m, flag, tag, shape = alpha[code]
        cf = Cfg({"typ": typ, "flag": flag, "m": m, "sys": tag, "shape": shape})
        v = generic_vec(cf.nvar, seed, 5 + pos)
        obj = construct(typ, cf.c, cf.from_var(v), flag, shape)
        layout.append((typ, len(lists[typ]), cf, v))
        lists[typ].append(obj)
    where = "set=%r" % ([alpha[c][:4] for c in seq],)
    cls_sig = "n=%d" % len(seq)
    if p.get("prev") is not None:
        # history: the set object first holds ANOTHER content, is used for every kind of conversion, and is then re-filled through
        # its public setters; everything below must hold for the new content
        prev_lists = {mode: [] for mode in MODE_ORDER}
        for pos, code in enumerate(p["prev"]):
            typ, m, flag, tag, shape = alpha[code]
            cf = Cfg({"typ": typ, "flag": flag, "m": m, "sys": tag, "shape": shape})
            prev_lists[typ].append(construct(typ, cf.c, cf.from_var(generic_vec(cf.nvar, seed, 25 + pos)), flag, shape))
        where = "set=%r after the same object held %r" % ([alpha[c][:4] for c in seq], [alpha[c][:4] for c in p["prev"]])
        cls_sig = "after-setters:n=%d" % len(seq)
        ok, sq = A.call(SetQOperations, states=prev_lists["state"], gates=prev_lists["gate"], povms=prev_lists["povm"], mprocesses=prev_lists["mprocess"])
        if ok:
            def touch():
                n0 = sq.size_var_total()
                sq.var_total()
                for t in range(n0):
                    info = sq.local_info_from_index_var_total(t)
                    sq.index_var_total_from_local_info(info["mode"], info["index_operations"], info["index_var_local"])
                if n0:
                    sq.set_qoperations_from_var_total(planted(n0))
            A.call(touch)

            def refill():
                sq.states = lists["state"]
                sq.gates = lists["gate"]
                sq.povms = lists["povm"]
                sq.mprocesses = lists["mprocess"]
            ok, err = A.call(refill)
            if not ok:
                sq = err
        out.count("sq_histories")
    else:
        ok, sq = A.call(SetQOperations, states=lists["state"], gates=lists["gate"], povms=lists["povm"], mprocesses=lists["mprocess"])
    out.ops += 1
    if not ok:
        fail("SetQOperations:constructor-raises:%s" % cls_sig, "%s: %s" % (where, A.fmt_exc(sq)))
        out.outcome = "fail"
        return out
    # reference layout of the total variable
    ref_total = np.concatenate([np.zeros(0)] + [v for _, _, _, v in layout])
    total = len(ref_total)
    owner = []
    for li, (typ, i, cf, v) in enumerate(layout):
        owner.extend((li, k) for k in range(cf.nvar))
    ok, val = A.call(sq.size_var_total)
    out.ops += 1
    if not ok or val != total:
        fail("size_var_total:wrong:%s" % cls_sig, "%s: %r, expected %d" % (where, val, total))
    ok, val = A.call(sq.var_total)
    out.ops += 1
    if not ok:
        fail("var_total:raises:%s" % cls_sig, "%s: %s" % (where, A.fmt_exc(val)))
    elif not close(val, ref_total, 10.0):
        fail("var_total:wrong:%s" % cls_sig, "%s: var_total is not the concatenation of the operations' variables" % where)

    plant = planted(total)
    ok, new = A.call(sq.set_qoperations_from_var_total, plant.copy())
    out.ops += 1
    new_lists = None
    if not ok:
        fail("set_qoperations_from_var_total:raises:%s" % cls_sig, "%s: %s" % (where, A.fmt_exc(new)))
    else:
        new_lists = {"state": new.states, "gate": new.gates, "povm": new.povms, "mprocess": new.mprocesses}
        if any(len(new_lists[mo]) != len(lists[mo]) for mo in MODE_ORDER):
            fail("set_qoperations_from_var_total:list-lengths:%s" % cls_sig, "%s: %r" % (where, {mo: len(new_lists[mo]) for mo in MODE_ORDER}))
            new_lists = None
        else:
            off = 0
            for typ, i, cf, v in layout:
                sl = plant[off:off + cf.nvar]
                off += cf.nvar
                check_object(cf, fail, new_lists[typ][i], cf.from_var(sl), sl, float(plant.max(initial=1.0)),
                             "set_qoperations_from_var_total", "%s operation (%s,%d)" % (where, typ, i))
            ok, val = A.call(new.var_total)
            out.ops += 1
            if not ok or not close(val, plant, float(plant.max(initial=1.0))):
                fail("set_qoperations_from_var_total:var_total-roundtrip:%s" % cls_sig, "%s: var_total of the new set is not the given vector" % where)
        ok, val = A.call(sq.var_total)
        if ok and not close(val, ref_total, 10.0):
            fail("set_qoperations_from_var_total:mutates-original:%s" % cls_sig, "%s" % where)
    # objects -> total variable -> objects
    ok, same = A.call(sq.set_qoperations_from_var_total, ref_total.copy())
    out.ops += 1
    if not ok:
        fail("set_qoperations_from_var_total:raises:%s" % cls_sig, "%s (own var_total): %s" % (where, A.fmt_exc(same)))
    else:
        same_lists = {"state": same.states, "gate": same.gates, "povm": same.povms, "mprocess": same.mprocesses}
        for typ, i, cf, v in layout:
            if len(same_lists[typ]) > i:
                check_object(cf, fail, same_lists[typ][i], content_of(typ, lists[typ][i]), v, 10.0,
                             "set_qoperations_from_var_total(own var_total)", "%s operation (%s,%d)" % (where, typ, i))

    for t in range(total):
        li, k = owner[t]
        typ, i, cf, _ = layout[li]
        want = {"mode": typ, "index_operations": i, "index_var_local": k}
        out.traces += 1
        ok, info = A.call(sq.local_info_from_index_var_total, t)
        out.ops += 1
        if not ok:
            fail("local_info_from_index_var_total:raises:%s" % cls_sig, "%s total index %d: %s" % (where, t, A.fmt_exc(info)))
        else:
            got = None
            try:
                got = {"mode": info["mode"], "index_operations": int(info["index_operations"]), "index_var_local": int(info["index_var_local"])}
            except Exception:
                pass
            if got != want:
                fail("local_info_from_index_var_total:wrong:%s" % cls_sig, "%s total index %d: got %r expected %r" % (where, t, info, want))
            else:
                ok, back = A.call(sq.index_var_total_from_local_info, info["mode"], info["index_operations"], info["index_var_local"])
                out.ops += 1
                if not ok or int(back) != t:
                    fail("index_var_total_from_local_info:not-inverse:%s" % cls_sig, "%s total index %d -> %r -> %r" % (where, t, info, back))
        ok, back = A.call(sq.index_var_total_from_local_info, typ, i, k)
        out.ops += 1
        if not ok:
            fail("index_var_total_from_local_info:raises:%s" % cls_sig, "%s (%s,%d,%d): %s" % (where, typ, i, k, A.fmt_exc(back)))
        elif int(back) != t:
            fail("index_var_total_from_local_info:wrong:%s" % cls_sig, "%s (%s,%d,%d): got %r expected %d" % (where, typ, i, k, back, t))
        if new_lists is not None:
            got = content_of(typ, new_lists[typ][i])
            e = cf.entries[k]
            if got.shape != cf.mask.shape or abs(got[e] - plant[t]) > TOL * plant[t]:
                fail("set_qoperations_from_var_total:planted-value:%s" % cls_sig,
                     "%s: total index %d should sit in (%s,%d) entry %r" % (where, t, typ, i, e))
    inner(out, max(0, total - 1))
    out.count("sq_sets")
    out.count("sq_total_indices", total)
    kinds = {alpha[c][0] for c in seq}
    if len(kinds) >= 2:
        out.count("sq_mixed_types")
    if len(kinds) >= 3:
        out.count("sq_three_types")
    for mode in MODE_ORDER:
        sizes = [cf.nvar for typ, _, cf, _ in layout if typ == mode]
        if len(set(sizes)) >= 2:
            out.count("sq_same_type_unequal_sizes")
    if len({alpha[c][2] for c in seq}) == 2:
        out.count("sq_both_flags")
    if len({alpha[c][3] for c in seq}) >= 2:
        out.count("sq_mixed_systems")
    out.nontrivial = total > 0
    out.digest = A.digest(ref_total)
    out.outcome = "%s:n=%d:%s" % (p["alphabet"], len(seq), "ok" if not out.fails else "fail")
    return out


# ---- family (e): multi-index layout survives the round trip ------------------------------------------------------

def ex_layout(p, seed):
    """a POVM whose outcomes carry a multi-index (tensor product of two POVMs): object -> var -> object"""
    from quara.objects.operators import tensor_product
    out = Out()
    fail = Fails(out)
    ta, tb, ma, mb, flag = p["sys_a"], p["sys_b"], int(p["ma"]), int(p["mb"]), bool(p["flag"])
    ca, cb = A.make_system(ta, [0]), A.make_system(tb, [1])
    pa = A.povm_generic(int(ca.dim), ma, seed, salt=ma)
    pb = A.povm_generic(int(cb.dim), mb, seed, salt=mb + 7)
    a = A.q_povm(ca, pa, on_para_eq_constraint=flag)
    b = A.q_povm(cb, pb, on_para_eq_constraint=flag)
    ok, t = A.call(tensor_product, a, b)
    if not ok:
        out.count("layout_tensor_product_unavailable")
        out.outcome = "skipped"
        return out
    sig = "m=(%d,%d)" % (ma, mb)
    where = "tensor product of a %d-outcome POVM on %s and a %d-outcome POVM on %s, flag=%s" % (ma, ta, mb, tb, flag)
    nl = list(t.nums_local_outcomes)
    ok, v = A.call(t.to_var)
    out.ops += 1
    if not ok:
        fail("to_var:raises:povm:composite", "%s: %s" % (where, A.fmt_exc(v)))
        return out
    ok, r = A.call(t.generate_from_var, np.array(v, dtype=np.float64))
    out.ops += 1
    if not ok:
        fail("generate_from_var:raises:povm:composite", "%s: %s" % (where, A.fmt_exc(r)))
        return out
    out.traces += 1
    if not close(np.array(r.vecs), np.array(t.vecs), 1.0):
        fail("generate_from_var:wrong-object:povm:composite:%s" % sig, "%s: elements differ after object -> var -> object" % where)
    if bool(r.on_para_eq_constraint) != bool(t.on_para_eq_constraint):
        fail("generate_from_var:flag-attribute:povm:composite:%s" % sig, where)
    if list(r.nums_local_outcomes) != nl:
        # Observation, not a violation of C03: the regenerated POVM denotes the same operators (checked above) but reports
        # the flat outcome layout [m]; the multi-index layout is only ever set by tensor_product (C07 judges it there).
        out.count("note_nums_local_outcomes_not_kept_by_generate_from_var")
    else:
        for mi in itertools.product(*[range(x) for x in nl]):
            ok1, e1 = A.call(t.vec, tuple(mi))
            ok2, e2 = A.call(r.vec, tuple(mi))
            out.ops += 2
            if ok1 and (not ok2 or not close(e2, e1, 1.0)):
                fail("generate_from_var:povm:multi-index-access:%s" % sig, "%s: vec(%r) differs on the regenerated object" % (where, mi))
    out.count("layout_checked")
    if len(nl) >= 2:
        out.count("layout_multi_index")
    out.outcome = "ok" if not out.fails else "fail"
    return out


# ---- enumeration ------------------------------------------------------------------------------------------------------

def families(tier, seed):
    cfgs = config_list(tier)
    rt, ix = [], []
    for cfg in cfgs:
        d = dim_of_tag(cfg["sys"])
        nstack = int(np.prod(ref_shape(cfg["typ"], cfg["m"], d * d)))
        nvar = ref_nvar(cfg["typ"], cfg["flag"], cfg["m"], d)
        top = nstack if cfg["flag"] else nvar
        for lo in range(0, top, CHUNK_VECTORS):
            rt.append(dict(cfg, lo=lo, hi=min(top, lo + CHUNK_VECTORS)))
        for lo in range(0, nvar, 2 * CHUNK_VECTORS):
            ix.append(dict(cfg, lo=lo, hi=min(nvar, lo + 2 * CHUNK_VECTORS)))
    rt.sort(key=lambda q: (q["hi"] - q["lo"], q["lo"]))
    ix.sort(key=lambda q: (q["hi"] - q["lo"], q["lo"]))
    nv = []
    for s in (["Q1", "Q3", "Q2", "Q6"] if tier == "quick" else ["Q1", "Q3", "Q2", "Q6", "D2,2,2", "D3,3"]):
        for flag in (True, False):
            nv.append({"cls": "qst", "flag": flag, "sys": s, "m": 0})
            nv.append({"cls": "qpt", "flag": flag, "sys": s, "m": 0})
            for m in (2, 3, 4, 5):
                nv.append({"cls": "povmt", "flag": flag, "sys": s, "m": m})
                nv.append({"cls": "qmpt", "flag": flag, "sys": s, "m": m})
    deep = tier != "quick"
    sq = []
    for name, maxlen in (("Q1", 5 if deep else 4), ("Q3", 4 if deep else 3), ("Q2", 4 if deep else 3), ("mixed", 4 if deep else 3)):
        for seq in ordered_sets(alphabet_of(name), maxlen):
            sq.append({"alphabet": name, "seq": seq})
    # histories: every ordered pair (previous content, new content) of sets with <= 2 operations on one qubit (thorough: new content <= 3)
    small = ordered_sets(alphabet_of("Q1"), 2)
    later = ordered_sets(alphabet_of("Q1"), 3) if deep else small
    sqh = [{"alphabet": "Q1", "seq": b, "prev": a} for a in small for b in later if a != b]
    lay = [{"sys_a": a, "sys_b": b, "ma": ma, "mb": mb, "flag": f}
           for (a, b) in (("Q1", "Q1"), ("Q1", "Q3")) for (ma, mb) in ((2, 2), (2, 3), (3, 2)) for f in (True, False)]
    return [("roundtrip", rt), ("indices", ix), ("numvars", nv), ("setqops", sq), ("setqops_history", sqh), ("layout", lay)]


def execute(family, params, seed):
    return {"roundtrip": ex_roundtrip, "indices": ex_indices, "numvars": ex_numvars, "setqops": ex_setqops,
            "setqops_history": ex_setqops, "layout": ex_layout}[family](params, seed)


def guards(summary):
    info = summary["info"]
    g = []
    need = ["rt_extra_vectors", "rt_basis_vectors", "rt_stacked_vectors", "rt_stacked_implied_position", "mprocess_multi_shape",
            "implied_depends_on_var:povm", "implied_depends_on_var:mprocess", "idx_checked", "grad_checked",
            "idx_shifted_by_implied_part", "sq_sets", "sq_total_indices", "sq_mixed_types", "sq_three_types",
            "sq_same_type_unequal_sizes", "sq_both_flags", "sq_mixed_systems", "layout_checked", "layout_multi_index"]
    need += ["cfg:%s:%s" % (t, f) for t in TYPES for f in ("eq", "noeq")]
    need += ["m=%d" % m for m in (2, 3, 4, 5)]
    need += ["sys:%s" % s for s in ("Q1", "Q3", "Q2", "Q6")]
    need += ["nv_checked:%s" % c for c in ("qst", "povmt", "qpt", "qmpt")]
    for k in need:
        if info.get(k, 0) < 1:
            g.append("never observed: %s" % k)
    return g
