"""C17 families: gate catalogue mirrored with the effective-Lindbladian catalogue, 2-qutrit gates, textbook actions."""
import itertools

import numpy as np

from mc import alphabet as A, refmodel as R
from mc.core import Out, inner
from mc.props import _c17_ref as T
from mc.props._c17_util import (DIMS, TOL, Chk, coeffs_fast, dist, hs_of_commutator_fast, hs_of_kraus_fast,
                                mat_from_coeffs_fast, proportional, ref_channel_verdict, sysinfo, vec_proportional,
                                second_system, check_bound_system)


def perm_label(ids):
    return "".join(str(r) for r in T.ranks(ids)) if ids else "none"


def check_gate(out, name, tag, sysnames, ids, do_gate_mat=True, do_el=True, do_el_heavy=True, sigtag=None, do_dispatch=True):
    """one catalogue gate name on one system / id assignment: gate forms, effective-Lindbladian forms, mirror."""
    from quara.objects import gate_typical as gt, effective_lindbladian_typical as elt, qoperation_typical as qt
    c, B, Bmat, d = sysinfo(tag, sysnames)
    dims = list(DIMS[tag])
    lab = sigtag or name
    suffix = ":ids-perm=%s" % perm_label(ids) if ids else ""
    kg = Chk(out, "gate_typical:%s" % lab)
    ke = Chk(out, "effective_lindbladian_typical:%s" % lab)

    def sg(what):
        return what + suffix

    if name == "identity":
        Uref = np.eye(d, dtype=np.complex128)
    else:
        try:
            Uref, rdims = T.gate_unitary(name, ids)
        except KeyError:
            out.fail("gate_typical:%s:unknown-to-textbook" % lab, "catalogue lists a gate name the reference table cannot interpret")
            return None
        kg.true("listed-dims", tuple(rdims) == tuple(dims))
    Mref = hs_of_kraus_fast([Uref], Bmat)
    idl = list(ids) if ids else []
    okU, U = kg.must(sg("unitary_mat"), gt.generate_unitary_mat_from_gate_name, name, dims, idl)
    okG, G = kg.must(sg("gate"), gt.generate_gate_from_gate_name, name, c, idl)
    M = None
    if do_gate_mat:
        okM, M = kg.must(sg("gate_mat"), gt.generate_gate_mat_from_gate_name, name, dims, idl)
        if not okM:
            M = None
    if okU:
        kg.true(sg("unitary-vs-textbook"), proportional(U, Uref) <= TOL,
                "unitary matrix is not the textbook unitary (up to a global phase); defect %g" % proportional(U, Uref))
    if okG:
        out.count("gate_generated")

        def regen():
            c2 = second_system(tag, sysnames)
            ok2, G2 = A.call(gt.generate_gate_from_gate_name, name, c2, idl)
            return ok2, c2, G2
        check_bound_system(kg, sg("gate"), G, c, regen, lambda g: g.hs)
        out.count("second_system_generations")
        kg.close(sg("gate.hs-vs-textbook"), G.hs, Mref)
        if okU:
            kg.close(sg("gate.hs-vs-unitary_mat"), G.hs, hs_of_kraus_fast([np.asarray(U, dtype=np.complex128)], Bmat))
        if M is not None:
            kg.close(sg("gate.hs-vs-gate_mat"), G.hs, M)
        cp, tp, me, tpd = ref_channel_verdict(np.asarray(G.hs), Bmat, d)
        kg.true(sg("reference-physical"), cp and tp, "Choi min eig %g, TP defect %g" % (me, tpd))
        out.count("ref_verdict_true")
        okp, phys = kg.must(sg("is_physical"), G.is_physical)
        if okp:
            kg.true(sg("library-says-unphysical"), bool(phys))
    if M is not None:
        kg.close(sg("gate_mat-vs-textbook"), M, Mref)
        kg.true(sg("gate_mat-real"), np.isrealobj(np.asarray(M)))
    # dispatchers (every listed object_name)
    if do_dispatch:
        for form in qt.get_gate_object_names():
            okf, obj = kg.must(sg("dispatcher:%s" % form), qt.generate_qoperation_object, mode="gate", name=name,
                               object_name=form, dims=dims, ids=idl, c_sys=c)
            if okf:
                want = {"unitary_mat": U if okU else None, "gate_mat": M, "gate": G.hs if okG else None}[form]
                if want is not None:
                    kg.close(sg("dispatcher:%s-vs-direct" % form), obj.hs if form == "gate" else obj, want)
        okq, Gq = kg.must(sg("generate_qoperation"), qt.generate_qoperation, "gate", name, c, idl)
        if okq and okG:
            kg.close(sg("generate_qoperation-vs-direct"), Gq.hs, G.hs)
    # the ids may arrive as a tuple (e.g. straight from itertools.permutations): same result as for the list
    if ids and len(ids) >= 2:
        tid = tuple(ids)
        forms = [("unitary_mat", lambda: gt.generate_unitary_mat_from_gate_name(name, dims, tid), U if okU else None),
                 ("gate", lambda: gt.generate_gate_from_gate_name(name, c, tid).hs, G.hs if okG else None)]
        if do_gate_mat and len(ids) == 2:
            forms.append(("gate_mat", lambda: gt.generate_gate_mat_from_gate_name(name, dims, tid), M))
        if do_el:
            forms.append(("hamiltonian_mat", lambda: elt.generate_hamiltonian_mat_from_gate_name(name, dims, tid),
                          A.call(elt.generate_hamiltonian_mat_from_gate_name, name, dims, idl)[1] if True else None))
            if do_el_heavy and len(ids) == 2:
                okl0, L0 = A.call(elt.generate_effective_lindbladian_mat_from_gate_name, name, dims, idl)
                forms.append(("effective_lindbladian_mat", lambda: elt.generate_effective_lindbladian_mat_from_gate_name(name, dims, tid), L0 if okl0 else None))
                oke0, E0 = A.call(elt.generate_effective_lindbladian_from_gate_name, name, c, idl)
                forms.append(("effective_lindbladian", lambda: elt.generate_effective_lindbladian_from_gate_name(name, c, tid).hs, E0.hs if oke0 else None))
        for form, fn, want in forms:
            if want is None or isinstance(want, Exception):
                continue
            okt, got = A.call(fn)
            out.ops += 1
            out.count("tuple_ids_forms")
            if not okt:
                kg.true(sg("ids-as-tuple:%s:raises" % form), False, "ids=%r as a tuple: %s" % (tid, A.fmt_exc(got)))
            else:
                kg.close(sg("ids-as-tuple:%s:differs-from-list-form" % form), got, want)
    if not do_el:
        return G if okG else None
    # ---- effective Lindbladian catalogue mirrored against the gate
    okh, Hm = ke.must(sg("hamiltonian_mat"), elt.generate_hamiltonian_mat_from_gate_name, name, dims, idl)
    okv, Hv = ke.must(sg("hamiltonian_vec"), elt.generate_hamiltonian_vec_from_gate_name, name, dims, idl)
    L = None
    if do_el_heavy:
        okl, L = ke.must(sg("effective_lindbladian_mat"), elt.generate_effective_lindbladian_mat_from_gate_name, name, dims, idl)
        if not okl:
            L = None
    oko, EL = ke.must(sg("effective_lindbladian"), elt.generate_effective_lindbladian_from_gate_name, name, c, idl)
    if okh:
        Hm = np.asarray(Hm, dtype=np.complex128)
        ke.true(sg("hamiltonian-hermitian"), Hm.shape == (d, d) and np.abs(Hm - Hm.conj().T).max() <= TOL)
        if Hm.shape == (d, d):
            w, V = np.linalg.eigh((Hm + Hm.conj().T) / 2)
            Uh = (V * np.exp(-1j * w)) @ V.conj().T
            ke.true(sg("exp(-iH)-vs-textbook-unitary"), proportional(Uh, Uref) <= TOL,
                    "exp(-iH) of the catalogued Hamiltonian is not the gate's unitary up to a phase")
            if okU:
                ke.true(sg("exp(-iH)-vs-unitary_mat"), proportional(Uh, np.asarray(U, dtype=np.complex128)) <= TOL)
            Lref = hs_of_commutator_fast(Hm, Bmat)
            if okv:
                ke.close(sg("hamiltonian_vec-vs-hamiltonian_mat"), Hv, coeffs_fast(Hm, Bmat))
            if L is not None:
                ke.close(sg("lindbladian_mat-vs-hamiltonian"), L, Lref)
            if oko:
                ke.close(sg("lindbladian.hs-vs-hamiltonian"), EL.hs, Lref)
    if L is not None:
        ke.true(sg("lindbladian_mat-real"), np.isrealobj(np.asarray(L)))
        ke.close(sg("exp(L)-vs-gate"), R.expm_herm_free(np.asarray(L, dtype=np.complex128)), Mref, tol=1e-8)
    if oko:
        out.count("efflind_generated")
        if L is not None:
            ke.close(sg("lindbladian.hs-vs-lindbladian_mat"), EL.hs, L)
        ke.close(sg("exp(lindbladian.hs)-vs-gate"), R.expm_herm_free(np.asarray(EL.hs, dtype=np.complex128)),
                 np.asarray(G.hs) if okG else Mref, tol=1e-8)
        if do_el_heavy:
            okp, phys = ke.must(sg("is_physical"), EL.is_physical)
            if okp:
                ke.true(sg("library-says-unphysical"), bool(phys))
            okt, Gt = ke.must(sg("to_gate"), EL.to_gate)
            if okt:
                ke.close(sg("to_gate-vs-gate"), Gt.hs, np.asarray(G.hs) if okG else Mref, tol=1e-8)
            okhm, hm2 = ke.must(sg("calc_h_mat"), EL.calc_h_mat)
            if okhm and okh and Hm.shape == (d, d):
                # H is determined up to a multiple of the identity
                h0 = Hm - np.trace(Hm) / d * np.eye(d)
                h2 = np.asarray(hm2, dtype=np.complex128)
                ke.close(sg("calc_h_mat-vs-hamiltonian_mat"), h2 - np.trace(h2) / d * np.eye(d), h0, tol=1e-8)
    if do_dispatch and do_el_heavy:
        for form in qt.get_effective_lindbladian_object_names():
            okf, obj = ke.must(sg("dispatcher:%s" % form), qt.generate_effective_lindbladian_object, name, form, dims, idl, c)
            if okf:
                want = {"hamiltonian_vec": Hv if okv else None, "hamiltonian_mat": Hm if okh else None,
                        "effective_lindbladian_mat": L, "effective_lindbladian": EL.hs if oko else None}[form]
                if want is not None:
                    ke.close(sg("dispatcher:%s-vs-direct" % form), obj.hs if form == "effective_lindbladian" else obj, want)
    return G if okG else None


def ex_gate(p, seed):
    out = Out()
    G = check_gate(out, p["name"], p["sys"], p.get("sysnames"), p.get("ids"))
    if p.get("ids"):
        out.count("gate_ids_perm_" + perm_label(p["ids"]))
    out.outcome = "ok" if not out.fails else "fail"
    out.digest = A.digest(np.asarray(G.hs)) if G is not None else ""
    return out


def ex_gate2qt(p, seed):
    out = Out()
    arrs = []
    for name in p["names"]:
        G = check_gate(out, name, "D3,3", None, None, do_gate_mat=p["mat"], do_el=p["el"], do_el_heavy=p["el"], do_dispatch=p["el"])
        out.count("gate2qt_names")
        if "_" in name:
            out.count("gate2qt_two_base")
        else:
            out.count("gate2qt_single_base")
        if G is not None:
            arrs.append(np.asarray(G.hs))
    inner(out, len(p["names"]) - 1)
    out.outcome = "ok" if not out.fails else "fail"
    out.digest = A.digest(*arrs)
    return out


# ---------------------------------------------------------------------------------------------- textbook actions

CURATED = [  # (gate, ids, input state, output state) hand-written textbook facts
    ("x", None, "z0", "z1"), ("x", None, "z1", "z0"), ("y", None, "z0", "z1"), ("z", None, "x0", "x1"),
    ("hadamard", None, "z0", "x0"), ("hadamard", None, "z1", "x1"), ("hadamard", None, "x0", "z0"),
    ("phase", None, "x0", "y0"), ("phase_daggered", None, "x0", "y1"), ("piover8", None, "x0", "a"),
    ("x90", None, "z0", "y1"), ("y90", None, "z0", "x0"), ("z90", None, "x0", "y0"), ("zm90", None, "x0", "y1"),
    ("x180", None, "z0", "z1"), ("y180", None, "z0", "z1"), ("z180", None, "x0", "x1"),
    ("cx", [0, 1], "z0_z0", "z0_z0"), ("cx", [0, 1], "z0_z1", "z0_z1"), ("cx", [0, 1], "z1_z0", "z1_z1"), ("cx", [0, 1], "z1_z1", "z1_z0"),
    ("cx", [1, 0], "z0_z0", "z0_z0"), ("cx", [1, 0], "z0_z1", "z1_z1"), ("cx", [1, 0], "z1_z0", "z1_z0"), ("cx", [1, 0], "z1_z1", "z0_z1"),
    ("cx", [0, 1], "x0_z0", "bell_phi_plus"), ("cx", [1, 0], "z0_x0", "bell_phi_plus"), ("cx", [0, 1], "x1_z1", "bell_psi_minus"),
    ("cz", [0, 1], "x0_z1", "x1_z1"), ("cz", [0, 1], "z1_x0", "z1_x1"), ("cz", [0, 1], "z0_x0", "z0_x0"),
    ("swap", [0, 1], "z0_z1", "z1_z0"), ("swap", [0, 1], "x0_y1", "y1_x0"), ("swap", [0, 1], "a_z0", "z0_a"),
    ("zx90", [0, 1], "z0_z0", "z0_y1"), ("zx90", [0, 1], "z1_z0", "z1_y0"), ("zx90", [1, 0], "z0_z0", "y1_z0"), ("zx90", [1, 0], "z0_z1", "y0_z1"),
    ("zz90", [0, 1], "z0_x0", "z0_y0"), ("zz90", [0, 1], "z1_x0", "z1_y1"),
    ("toffoli", [0, 1, 2], "z1_z1_z0", "z1_z1_z1"), ("toffoli", [0, 1, 2], "z1_z0_z0", "z1_z0_z0"), ("toffoli", [0, 1, 2], "z0_z1_z1", "z0_z1_z1"),
    ("toffoli", [0, 2, 1], "z1_z0_z1", "z1_z1_z1"), ("toffoli", [1, 2, 0], "z0_z1_z1", "z1_z1_z1"), ("toffoli", [2, 0, 1], "z1_z0_z1", "z1_z1_z1"),
    ("toffoli", [2, 1, 0], "z0_z1_z1", "z1_z1_z1"), ("toffoli", [1, 0, 2], "z1_z1_z1", "z1_z1_z0"),
    ("fredkin", [0, 1, 2], "z1_z0_z1", "z1_z1_z0"), ("fredkin", [0, 1, 2], "z0_z0_z1", "z0_z0_z1"), ("fredkin", [0, 2, 1], "z1_z1_z0", "z1_z0_z1"),
    ("fredkin", [1, 0, 2], "z0_z1_z1", "z1_z1_z0"), ("fredkin", [1, 2, 0], "z0_z1_z1", "z1_z1_z0"), ("fredkin", [2, 0, 1], "z0_z1_z1", "z1_z0_z1"),
    ("fredkin", [2, 1, 0], "z1_z0_z1", "z0_z1_z1"), ("fredkin", [1, 2, 0], "z1_z0_z1", "z1_z0_z1"),
    ("01x180", None, "01z0", "01z1"), ("01x180", None, "02z1", "02z1"), ("12x180", None, "12z0", "12z1"), ("02x180", None, "02z0", "02z1"),
    ("01y180", None, "01z0", "01z1"), ("12y180", None, "12z1", "12z0"), ("02y180", None, "02z1", "02z0"),
    ("01x90", None, "01z0", "01y1"), ("12x90", None, "12z0", "12y1"), ("02x90", None, "02z0", "02y1"),
    ("01y90", None, "01z0", "01x0"), ("12y90", None, "12z0", "12x0"), ("02y90", None, "02z0", "02x0"),
    ("01z90", None, "01x0", "01y0"), ("12z90", None, "12x0", "12y0"), ("02z90", None, "02x0", "02y0"),
    ("01z180", None, "01x0", "01x1"), ("12z180", None, "12x0", "12x1"), ("02z180", None, "02x0", "02x1"),
    ("01z180", None, "12z1", "12z1"), ("12z90", None, "01z0", "01z0"),
]


def ex_action(p, seed):
    """every catalogue gate object applied to every catalogue state object of its system (state' = hs @ vec and
    compose_qoperations), compared with U psi from the textbook tables; outputs that are again a named state are
    compared with the catalogue's object of that name; the hand-written CURATED facts are checked explicitly."""
    from quara.objects import gate_typical as gt, state_typical as st
    from quara.objects.operators import compose_qoperations
    out = Out()
    name, tag, ids = p["name"], p["sys"], p.get("ids")
    c, B, Bmat, d = sysinfo(tag)
    lab = "action:%s" % name + (":ids-perm=%s" % perm_label(ids) if ids else "")
    k = Chk(out, lab)
    okG, G = k.must("gate", gt.generate_gate_from_gate_name, name, c, list(ids) if ids else [])
    if not okG:
        out.outcome = "fail"
        return out
    Uref, _ = T.gate_unitary(name, ids)
    snames = p["states"]
    refs = {s: T.state_vector(s)[0] for s in snames}
    objs = {}
    for s in snames:
        ok, S = k.must("state:%s" % s, st.generate_state_from_name, c, s)
        if ok:
            objs[s] = S
    n = 0
    bad = {"hs@vec-vs-textbook": [], "compose-vs-textbook": [], "named-output": []}
    for s, S in objs.items():
        want_vec = Uref @ refs[s]
        want = coeffs_fast(T.proj(want_vec), Bmat)
        got = np.asarray(G.hs) @ np.asarray(S.vec)
        n += 1
        out.traces += 1
        if dist(got, want) > TOL:
            bad["hs@vec-vs-textbook"].append(s)
        okc, S2 = k.must("compose", compose_qoperations, G, S)
        if okc and dist(S2.vec, want) > TOL:
            bad["compose-vs-textbook"].append(s)
        # named output?
        for t, tv in refs.items():
            if vec_proportional(want_vec, tv) <= 1e-12:
                out.count("action_named_output")
                if t in objs and dist(got, objs[t].vec) > TOL:
                    bad["named-output"].append("%s->%s" % (s, t))
                break
    for what, lst in bad.items():
        if lst:
            out.fail("%s:%s" % (lab, what), "%s applied to %d of %d catalogue states differs from the textbook action U psi, e.g. %s" % (
                name, len(lst), len(objs), ", ".join(lst[:6])))
    # generic (seed-rotated) pure state through the catalogue gate object
    psi = R.generic_unitary(d, seed, salt=2)[:, 0]
    got = np.asarray(G.hs) @ coeffs_fast(T.proj(psi), Bmat).real
    want = coeffs_fast(T.proj(Uref @ psi), Bmat)
    out.traces += 1
    if dist(got, want) > TOL:
        out.fail("%s:on:generic-state" % lab, "gate applied to a generic pure state differs from U psi by %g" % dist(got, want))
    # hand-written facts
    for g, gi, s_in, s_out in CURATED:
        if g != name or (gi is not None and ids is not None and list(gi) != list(ids)) or (gi is not None and ids is None):
            continue
        if s_in not in objs or s_out not in objs:
            out.fail("%s:curated:%s->%s:state-missing" % (lab, s_in, s_out), "catalogue lacks a state of the curated table")
            continue
        out.count("action_curated")
        got = np.asarray(G.hs) @ np.asarray(objs[s_in].vec)
        out.traces += 1
        if dist(got, objs[s_out].vec) > TOL:
            out.fail("%s:curated:%s->%s" % (lab, s_in, s_out), "textbook fact violated: %s |%s> = |%s> (difference %g)" % (
                name, s_in, s_out, dist(got, objs[s_out].vec)))
    inner(out, n)
    out.outcome = "ok" if not out.fails else "fail"
    return out
