"""C14 Sampled data and empirical distributions are valid and reproducible.

E3 (environment answers): the only input of the sampler besides the distribution is the uniform number.  A scripted
generator object handed in through the public `seed_or_generator` argument returns chosen numbers; every distribution
of the alphabet is driven through every boundary number and through a full equispaced grid.  For the multinomial
based entry points a recording sampler stands in for `data_generator.multinomial` and the requests
(n, p, stream) are compared with the reference schedule order and the reference Born probabilities.
E1: calc_empi_dist_sequence on every data list x every num_sums list inside the bounds against prefix counting.
E2: explicit-state BFS over histories of data-generation calls (20 entry points x {int seed, shared generator, global
state}) interleaved with unrelated draws, re-seeding events and constructions; after every transition the output, the
global RandomState, the shared generator and a bystander generator are compared with reference clones.
"""
import itertools
import json
import os
import subprocess
import sys

import numpy as np

from mc import alphabet as A, refmodel as R
from mc.core import Out, inner
from mc.props import _c14_model as M

ID = "C14"
RULE = ("one evaluation = one (distribution, uniform number) pair of the inverse-CDF sampler, one (distribution, grid) "
        "table, one (entry point, seed mode, size configuration) request trace, one (measurement_num, data list, "
        "num_sums list) triple of calc_empi_dist_sequence, or one transition (stream state, event) of the history "
        "graph; distinct = distinct parameter tuples / distinct stream states (byte hashes of the global RandomState "
        "and the shared generator); non-trivial = at least one number drawn or one non-empty request")
ASSUMPTIONS = [
    "trusted base: numpy's bit generators (MT19937, PCG64, legacy global RandomState) and scipy.stats.multinomial.rvs "
    "as the multinomial sampler on a given stream; distributional correctness of the multinomial entry points is "
    "reduced to 'exactly (n, p, caller's stream) is requested once per empirical distribution in schedule order'",
    "an int seed means a fresh numpy Generator over MT19937(seed) (anchor number_util.to_stream); the reference "
    "predictions of seeded output use that generator",
    "the recording sampler replaces the module attribute quara.qcircuit.data_generator.multinomial (the seam the "
    "library itself uses); an implementation drawing multinomials by another route would need a new seam",
    "probabilities handed to the reference stream predictions are the library's own float vectors (compared with the "
    "reference Born rule to 1e-9 in the request family); quantum objects are 1-qubit generic physical objects",
    "num_sum = 0 and negative num_sums are outside the asserted domain (no documented behaviour); multinomial "
    "sequences are judged per element (independent draws per requested size, as the library documents at the "
    "data_generator level), prefix consistency is asserted for calc_empi_dist_sequence only",
    "uniform numbers: every float in [0,1) that is a partial sum, one of its float neighbours or a neighbour on the "
    "2^-53 grid, plus 0 and 1-2^-53; the equispaced grids k/2^b and (k+1/2)/2^b",
]
BOUNDS = {
    "quick": "distributions: 62 base vectors (uniform/dyadic 2..16 outcomes, point masses, tiny entries 1e-300/1e-17/1e-9, "
             "sums within atol of 1) x 8 zero patterns, all vectors of tenths (2 float renderings) and eighths with <= 5 "
             "outcomes; grid 2^12 (+ half-offset grid); calc_empi_dist_sequence: data over 3 symbols up to length 7 x "
             "all num_sums lists over 1..8 up to length 3; histories depth 3 over a 67-event menu (20 entry points x 3 "
             "seed modes + 7 environment events); 28 size configurations (every increasing num_sums list of length <= 3 "
             "over {1,2,7,100,1000} + 4 hand-picked); 9 int seeds",
    "thorough": "tenths with <= 7 outcomes, eighths with <= 6; grid 2^14; data length <= 8 x num_sums over 1..9 up to "
                "length 4; histories depth 4",
}
EXHAUSTIVE = {"quick": True, "thorough": True}
CASE_TIMEOUT = 900
CHUNK = 2

INT_SEED = 7
SEEDS = [0, 1, 7, 12345, 2 ** 31 - 1, 2 ** 32 - 1, 2 ** 32, 2 ** 63 - 1, 10 ** 30]
G_SEED = 99
GLOBAL0 = 20240927
CFGS = [
    {"nd": 40, "nums": [10, 200], "n1": 100},
    {"nd": 1, "nums": [1], "n1": 1},
    {"nd": 7, "nums": [7, 8, 1000], "n1": 1000},
    {"nd": 0, "nums": [5], "n1": 5},
]
# every increasing sample-size list of length 1..3 over {1, 2, 7, 100, 1000}
for _r in (1, 2, 3):
    for _t in itertools.combinations((1, 2, 7, 100, 1000), _r):
        if not any(c["nums"] == list(_t) for c in CFGS):
            CFGS.append({"nd": _t[0], "nums": list(_t), "n1": _t[-1]})
MODES = ("int", "gen", "none")


def fail_once(out, sig, msg):
    for f in out.fails:
        if f["sig"] == sig:
            return
    out.fail(sig, msg)


# ---- operands / entry points -----------------------------------------------------------------------

class Entry:
    def __init__(self, name, kind, call, ref_requests, paths, empty=None, per_item_seed=False):
        self.name, self.kind, self.call = name, kind, call
        self.ref_requests = ref_requests      # [(n, reference p)] in draw order
        self.paths = paths                    # where each drawn item sits in the documented output nesting
        self.empty = empty
        self.per_item_seed = per_item_seed
        self.cap = None                       # [(n, library p)] captured (bitwise p for the stream predictions)
        self.cap_err = None

    def arg(self, mode, G, seed=INT_SEED):
        k = len(self.ref_requests)
        if mode == "int":
            return [seed + i for i in range(k)] if self.per_item_seed else seed
        if mode == "gen":
            return [G] * k if self.per_item_seed else G
        return None


class Pool:
    pass


_POOL = {}


def pool(seed):
    if seed in _POOL:
        return _POOL[seed]
    from quara.qcircuit import data_generator as dg
    from quara.qcircuit.experiment import Experiment
    from quara.protocol.qtomography.standard.standard_qst import StandardQst
    from quara.protocol.qtomography.standard.standard_povmt import StandardPovmt
    from quara.protocol.qtomography.standard.standard_qpt import StandardQpt
    from quara.protocol.qtomography.standard.standard_qmpt import StandardQmpt
    P = Pool()
    P.dg = dg
    c = A.make_system("Q1")
    st, pv, gt, ins = A.states_ref(2, seed), A.povms_ref(2, seed), A.gates_ref(2, seed), A.instruments_ref(2, seed)
    r_states = [st["pure_generic"], st["mixed_generic"]]
    r_povms = [pv["generic_m3"], pv["generic_m2"]]
    r_gate, r_mp = gt["ampdamp"], ins["multikraus_m3"]
    t_state, t_povm, t_gate, t_mp = st["mixed_generic"], pv["generic_m3"], gt["kraus_generic_r2"], ins["feedback_m2"]
    q_states = [A.q_state(c, x) for x in r_states]
    q_povms = [A.q_povm(c, x) for x in r_povms]
    P.q_states, P.q_povms = q_states, q_povms
    q_gate, q_mp = A.q_gate(c, r_gate), A.q_mprocess(c, r_mp)
    qt_state, qt_povm, qt_gate, qt_mp = A.q_state(c, t_state), A.q_povm(c, t_povm), A.q_gate(c, t_gate), A.q_mprocess(c, t_mp)
    schedules = [[("state", 0), ("povm", 0)], [("state", 1), ("gate", 0), ("povm", 1)],
                 [("state", 0), ("mprocess", 0), ("povm", 1)], [("state", 1), ("povm", 0)]]
    P.make_experiment = lambda **kw: Experiment(schedules=[list(s) for s in schedules], states=list(q_states),
                                                povms=list(q_povms), gates=[q_gate], mprocesses=[q_mp], **kw)
    E = P.make_experiment(seed_data=17)      # a stored seed_data must not leak into later calls
    P.E = E
    P.make_qst = lambda **kw: StandardQst(list(q_povms), **kw)
    born_E = [R.run_chain(r_states[0], [("povm", r_povms[0])])[0].ravel(),
              R.run_chain(r_states[1], [("gate", r_gate), ("povm", r_povms[1])])[0].ravel(),
              R.run_chain(r_states[0], [("mprocess", r_mp), ("povm", r_povms[1])])[0].ravel(),
              R.run_chain(r_states[1], [("povm", r_povms[0])])[0].ravel()]
    P.born_E = born_E
    tomo = {
        "StandardQst": (StandardQst(list(q_povms), seed_data=13), qt_state,
                        [R.run_chain(t_state, [("povm", m)])[0].ravel() for m in r_povms]),
        "StandardPovmt": (StandardPovmt(list(q_states), 3, seed_data=13), qt_povm,
                          [R.run_chain(s, [("povm", t_povm)])[0].ravel() for s in r_states]),
        "StandardQpt": (StandardQpt(list(q_states), list(q_povms), seed_data=13), qt_gate,
                        [R.run_chain(s, [("gate", t_gate), ("povm", m)])[0].ravel() for s in r_states for m in r_povms]),
        "StandardQmpt": (StandardQmpt(list(q_states), list(q_povms), 2, seed_data=13), qt_mp,
                         [R.run_chain(s, [("mprocess", t_mp), ("povm", m)])[0].ravel() for s in r_states for m in r_povms]),
    }
    P.tomo = tomo
    P1 = np.array([0.2, 0.3, 0.5])
    P2 = np.array([0.5, 0.0, 0.25, 0.25])
    P3 = np.array([0.1] * 10)
    Ps = [P1, P2, P3]
    P.Ps = Ps

    def build(cfg):
        nd, nums, n1 = cfg["nd"], list(cfg["nums"]), cfg["n1"]
        ents = []
        ents.append(Entry("generate_data_from_prob_dist", "data",
                          lambda a, kw: dg.generate_data_from_prob_dist(P1, nd, seed_or_generator=a) if kw
                          else dg.generate_data_from_prob_dist(P1, nd, a), [(nd, P1)], [()]))
        nds = [nd, nd + 1, nd + 2]
        ents.append(Entry("generate_dataset_from_prob_dists", "data",
                          lambda a, kw: dg.generate_dataset_from_prob_dists(Ps, nds, seeds_or_generators=a) if kw
                          else dg.generate_dataset_from_prob_dists(Ps, nds, a),
                          list(zip(nds, Ps)), [(0,), (1,), (2,)], per_item_seed=True))
        ents.append(Entry("generate_empi_dist_sequence_from_prob_dist", "multi",
                          lambda a, kw: dg.generate_empi_dist_sequence_from_prob_dist(P2, nums, seed_or_generator=a) if kw
                          else dg.generate_empi_dist_sequence_from_prob_dist(P2, nums, a),
                          [(n, P2) for n in nums], [(k,) for k in range(len(nums))], empty=[]))
        lists = [nums, nums[:1], [nums[-1] + 1]]
        ents.append(Entry("generate_empi_dists_sequence_from_prob_dists", "multi",
                          lambda a, kw: dg.generate_empi_dists_sequence_from_prob_dists(Ps, lists, seed_or_generator=a) if kw
                          else dg.generate_empi_dists_sequence_from_prob_dists(Ps, lists, a),
                          [(n, Ps[i]) for i in range(3) for n in lists[i]],
                          [(i, k) for i in range(3) for k in range(len(lists[i]))]))
        ents.append(Entry("Experiment.generate_data", "data",
                          lambda a, kw: E.generate_data(2, nd, seed_or_generator=a) if kw else E.generate_data(2, nd, a),
                          [(nd, born_E[2])], [()]))
        ends = [nd, nd + 1, nd + 2, nd + 3]
        ents.append(Entry("Experiment.generate_dataset", "data",
                          lambda a, kw: E.generate_dataset(ends, seed_or_generator=a) if kw else E.generate_dataset(ends, a),
                          list(zip(ends, born_E)), [(s,) for s in range(4)]))
        ents.append(Entry("Experiment.generate_empi_dist_sequence", "multi",
                          lambda a, kw: E.generate_empi_dist_sequence(1, nums, seed_or_generator=a) if kw
                          else E.generate_empi_dist_sequence(1, nums, a),
                          [(n, born_E[1]) for n in nums], [(k,) for k in range(len(nums))]))
        lns = [[n + s for s in range(4)] for n in nums]          # [step][schedule]
        ents.append(Entry("Experiment.generate_empi_dists_sequence", "multi",
                          lambda a, kw: E.generate_empi_dists_sequence(lns, seed_or_generator=a) if kw
                          else E.generate_empi_dists_sequence(lns, a),
                          [(lns[k][s], born_E[s]) for s in range(4) for k in range(len(nums))],
                          [(s, k) for s in range(4) for k in range(len(nums))]))
        for cname, (qt, true, borns) in tomo.items():
            S = len(borns)
            idx = S - 1

            def f1(a, kw, qt=qt, true=true, idx=idx):
                return qt.generate_empi_dist(idx, true, n1, seed_or_generator=a) if kw else qt.generate_empi_dist(idx, true, n1, a)

            def f2(a, kw, qt=qt, true=true):
                return qt.generate_empi_dists(true, n1, seed_or_generator=a) if kw else qt.generate_empi_dists(true, n1, a)

            def f3(a, kw, qt=qt, true=true):
                return qt.generate_empi_dists_sequence(true, nums, seed_or_generator=a) if kw \
                    else qt.generate_empi_dists_sequence(true, nums, a)

            ents.append(Entry(cname + ".generate_empi_dist", "multi", f1, [(n1, borns[idx])], [()]))
            ents.append(Entry(cname + ".generate_empi_dists", "multi", f2, [(n1, borns[s]) for s in range(S)],
                              [(s,) for s in range(S)]))
            ents.append(Entry(cname + ".generate_empi_dists_sequence", "multi", f3,
                              [(n, borns[s]) for s in range(S) for n in nums],
                              [(k, s) for s in range(S) for k in range(len(nums))]))
        return ents

    P.entries = [build(cfg) for cfg in CFGS]
    P.names = [e.name for e in P.entries[0]]
    P.menu = [("call", i, m) for i in range(len(P.names)) for m in MODES] + \
             [("global-draw",), ("generator-draw",), ("reset_seed_data", 11), ("reset_seed_data", None),
              ("construct-tomography", 5), ("construct-tomography", None), ("np.random.seed", 3)]
    P.captured = False
    P.int_pred = {}
    _POOL[seed] = P
    return P


class Recorder:
    """stands in for scipy.stats.multinomial inside quara.qcircuit.data_generator"""

    def __init__(self):
        self.req = []

    def rvs(self, n, p, size=None, random_state=None):
        k = len(self.req)
        p = np.array(p, dtype=float, copy=True).ravel()
        self.req.append((n, p, random_state))
        sup = [j for j in range(p.size) if p[j] > 0]
        m, n = len(sup), int(n)
        cnt = np.zeros(p.size, dtype=np.int64)
        for a, j in enumerate(sup):
            cnt[j] = n // m + (1 if ((a - k) % m) < n % m else 0)
        return cnt


class Patched:
    def __init__(self, dg, rec):
        self.dg, self.rec = dg, rec

    def __enter__(self):
        self.old = self.dg.multinomial
        self.dg.multinomial = self.rec
        return self.rec

    def __exit__(self, *a):
        self.dg.multinomial = self.old
        return False


def invoke(out, ent, arg):
    """public call with the documented keyword; a rejected keyword is its own finding and the call is repeated
    positionally so that the rest is still judged"""
    ok, val = A.call(ent.call, arg, True)
    out.ops += 1
    if not ok and isinstance(val, TypeError) and "unexpected keyword argument" in str(val):
        fail_once(out, "%s:keyword-seed_or_generator-rejected" % ent.name,
                  "the documented keyword of the data-generation entry points is not accepted: %s" % A.fmt_exc(val))
        ok, val = A.call(ent.call, arg, False)
        out.ops += 1
    return ok, val


def capture(P):
    """library-side float probability vectors per entry (deterministic, stream independent)"""
    if P.captured:
        return
    saved = np.random.get_state()
    try:
        scratch = Out()
        for ents in P.entries:
            for e in ents:
                if e.kind == "data":
                    if e.name.startswith("Experiment."):
                        idxs = [2] if e.name.endswith("generate_data") else [0, 1, 2, 3]
                        ok, val = A.call(lambda: [np.array(P.E.calc_prob_dist(i), dtype=float).ravel() for i in idxs])
                        if ok:
                            e.cap = [(n, p) for (n, _), p in zip(e.ref_requests, val)]
                        else:
                            e.cap_err = val
                    else:
                        e.cap = list(e.ref_requests)
                    continue
                rec = Recorder()
                with Patched(P.dg, rec):
                    ok, val = invoke(scratch, e, INT_SEED)
                if ok:
                    e.cap = [(n, p) for n, p, _ in rec.req]
                else:
                    e.cap_err = val
                if e.cap is not None and (len(e.cap) != len(e.ref_requests) or any(
                        a[0] != b[0] or a[1].shape != np.asarray(b[1]).shape for a, b in zip(e.cap, e.ref_requests))):
                    e.cap_err = ValueError("request trace does not have the reference shape")
                    e.cap = None
    finally:
        np.random.set_state(saved)
    P.captured = True


def expected_output(ent, stream=None, seed=None):
    """reference output of one call: on `stream`, or for an int seed"""
    if seed is not None:
        if ent.per_item_seed:
            items = []
            for i, rq in enumerate(ent.cap):
                items.extend(M.predict(ent.kind, [rq], M.fresh_stream(seed + i)))
        else:
            items = M.predict(ent.kind, ent.cap, M.fresh_stream(seed))
    else:
        items = M.predict(ent.kind, ent.cap, stream)
    return M.assemble(ent.paths, items, ent.empty), items


def check_validity(out, ent, output, tag):
    """what the property promises about every output irrespective of the stream"""
    try:
        items = M.disassemble(ent.paths, output, ent.empty)
    except M.Structure as e:
        fail_once(out, "%s:%s:output-nesting" % (ent.name, tag), "output %r is not nested as documented (%s)" % (output, e))
        return
    for (n, p), it in zip(ent.cap or ent.ref_requests, items):
        p = np.asarray(p, dtype=float)
        if ent.kind == "data":
            if not isinstance(it, list) or len(it) != n or any(type(d) is not int for d in it):
                fail_once(out, "%s:%s:data-not-a-list-of-n-ints" % (ent.name, tag), "n=%d got %r" % (n, it))
                continue
            if any(not (0 <= d < p.size) for d in it):
                fail_once(out, "%s:%s:outcome-out-of-range" % (ent.name, tag), "outcomes %r for %d outcomes" % (it, p.size))
            elif any(p[d] <= 0 for d in it):
                fail_once(out, "%s:%s:zero-probability-outcome" % (ent.name, tag), "p=%r data=%r" % (p, it))
            out.count("valid_data_items")
        else:
            if not isinstance(it, tuple) or len(it) != 2 or not isinstance(it[1], np.ndarray):
                fail_once(out, "%s:%s:item-not-(n,array)" % (ent.name, tag), "got %r" % (it,))
                continue
            nn, arr = it
            if nn != n:
                fail_once(out, "%s:%s:wrong-sample-size-label" % (ent.name, tag), "requested %r labelled %r" % (n, nn))
            cnt = arr * n
            if arr.shape != (p.size,) or arr.dtype != np.float64 or arr.min() < 0 or abs(arr.sum() - 1) > 1e-12 \
                    or np.abs(cnt - np.round(cnt)).max() > 1e-9:
                fail_once(out, "%s:%s:not-counts-over-n" % (ent.name, tag), "n=%d got %r" % (n, arr))
            elif np.any((p == 0) & (arr != 0)):
                fail_once(out, "%s:%s:zero-probability-outcome" % (ent.name, tag), "p=%r empirical %r" % (p, arr))
            out.count("valid_empi_items")


# ---- families -------------------------------------------------------------------------------------

def families(tier, seed):
    P = pool(seed)
    capture(P)
    fams = []
    nd = len(M.distributions(tier))
    step = 40
    fams.append(("sampler_boundary", [{"lo": i, "hi": min(nd, i + step), "tier": tier} for i in range(0, nd, step)]))
    gstep = 12 if tier == "quick" else 6
    fams.append(("sampler_grid", [{"lo": i, "hi": min(nd, i + gstep), "tier": tier, "bits": 12 if tier == "quick" else 14}
                                  for i in range(0, nd, gstep)]))
    fams.append(("stream_plumbing", [{"cfg": k} for k in range(len(CFGS))]))
    multi = [e.name for e in P.entries[0] if e.kind == "multi"]
    fams.append(("multinomial_requests", [{"entry": n, "mode": m, "cfg": k} for k in range(len(CFGS)) for n in multi for m in MODES]))
    Lmax = 7 if tier == "quick" else 8
    emp = [{"mnum": -1, "alpha": "A0", "L": 2, "head": -9, "nsmax": 3, "nslen": 2}]
    nsmax, nslen = (8, 3) if tier == "quick" else (9, 4)
    for mnum in (3, 2):
        for L in range(0, Lmax + 1):
            if L >= 5:
                for h in itertools.product(range(3), repeat=L - 4):
                    emp.append({"mnum": mnum, "alpha": "A0", "L": L, "head": list(h), "nsmax": nsmax, "nslen": nslen})
            else:
                emp.append({"mnum": mnum, "alpha": "A0", "L": L, "head": [], "nsmax": nsmax, "nslen": nslen})
    for L in range(1, 5):
        emp.append({"mnum": 2, "alpha": "A1", "L": L, "head": [], "nsmax": 5, "nslen": 3})
    emp.append({"mnum": 0, "alpha": "plural", "L": 0, "head": [], "nsmax": 0, "nslen": 0})
    fams.append(("empi_prefix", emp))
    depth = 3 if tier == "quick" else 4
    nev = len(P.menu)
    pref = [[a] for a in range(nev)] if depth == 3 else [[a, b] for a in range(nev) for b in range(nev)]
    fams.append(("histories", [{"prefix": pr, "depth": depth} for pr in pref]))
    fams.append(("successive", [{"entry": n} for n in P.names]))
    fams.append(("fresh_process", [{"part": 0}]))
    fams.append(("tiny_probabilities", [{"delta": d} for d in (1e-9, 1e-10, 1e-11, 4e-13)]))
    return fams


def execute(family, params, seed):
    fn = {"sampler_boundary": ex_boundary, "sampler_grid": ex_grid, "stream_plumbing": ex_plumbing,
          "multinomial_requests": ex_requests, "empi_prefix": ex_empi, "histories": ex_histories,
          "successive": ex_successive, "fresh_process": ex_fresh, "tiny_probabilities": ex_tiny}[family]
    P = pool(seed)
    capture(P)
    saved = np.random.get_state()
    old = P.dg.multinomial
    try:
        return fn(params, seed)
    finally:
        P.dg.multinomial = old
        np.random.set_state(saved)


def guards(summary):
    info = summary["info"]
    g = []
    need = ["dist_zero_leading", "dist_zero_middle", "dist_zero_trailing", "dist_total_below_one", "dist_total_one",
            "dist_total_above_one", "dist_tiny_entry", "dist_outcomes_16", "boundary_numbers", "boundary_at_or_above_total",
            "grid_tables", "grid_outcome_classes_hit", "plumbing_calls_checked", "plumbing_documented_error",
            "requests_checked", "requests_mode_int", "requests_mode_gen", "requests_mode_none", "born_p_compared",
            "empi_value", "empi_error_too-long", "empi_error_not-increasing", "empi_error_data-out-of-range",
            "empi_error_negative-measurement-num", "empi_unspecified", "empi_monotone_pairs", "empi_plural",
            "hist_selfloop", "hist_int_ok", "hist_gen_advanced", "hist_none_advanced", "hist_reseed", "hist_construct",
            "hist_after_unrelated_draw", "succ_differs", "succ_seeds_distinct", "fresh_compared",
            "valid_data_items", "valid_empi_items"]
    for k in need:
        if info.get(k, 0) < 1:
            g.append("never observed: %s" % k)
    return g


# ---- E3: inverse-CDF sampler under scripted uniform numbers ------------------------------------------

class ScriptGen:
    """the environment: a generator object whose answers are chosen by the explorer"""

    def __init__(self, script):
        self.script, self.calls = script, []

    def random(self, size=None):
        k = len(self.calls)
        self.calls.append(size)
        return np.array(self.script(k, size), dtype=np.float64)


def describe(out, p, cum):
    z = [i for i, x in enumerate(p) if x == 0]
    for i in z:
        out.count("dist_zero_" + M.zero_class(p, i))
    tot = cum[-1]
    out.count("dist_total_below_one" if tot < 1 else "dist_total_one" if tot == 1 else "dist_total_above_one")
    if any(0 < x <= 1e-9 for x in p):
        out.count("dist_tiny_entry")
    if len(p) == 16:
        out.count("dist_outcomes_16")


def judge_outcomes(out, name, p, cum, us, data, where):
    m = len(p)
    if not isinstance(data, list) or len(data) != len(us):
        fail_once(out, "generate_data_from_prob_dist:%s:wrong-length" % where, "%s: %d numbers, output %r" % (name, len(us), data))
        return
    for u, d in zip(us, data):
        if type(d) is not int or not (0 <= d < m):
            fail_once(out, "generate_data_from_prob_dist:%s:outcome-out-of-range" % where, "%s p=%r u=%r -> %r" % (name, p, u, d))
        elif p[d] <= 0:
            if u >= cum[-1]:
                fail_once(out, "generate_data_from_prob_dist:zero-probability-outcome:u-at-or-above-float-total:%s" % M.zero_class(p, d),
                          "%s: p=%r (float partial sums end at %r), u=%r (%s) -> outcome %d of probability 0"
                          % (name, p, cum[-1], u, float(u).hex(), d))
            else:
                fail_once(out, "generate_data_from_prob_dist:zero-probability-outcome:u-below-float-total:%s" % M.zero_class(p, d),
                          "%s: p=%r u=%r (%s) -> outcome %d of probability 0" % (name, p, u, float(u).hex(), d))
        else:
            out.count("valid_data_items")


def ex_boundary(prm, seed):
    out = Out()
    dg = pool(seed).dg
    dists = M.distributions(prm["tier"])[prm["lo"]:prm["hi"]]
    tot = 0
    dig = []
    for name, p in dists:
        if not M.library_accepts(p):
            raise AssertionError("harness: alphabet vector outside the documented domain: %s" % name)
        cum = M.float_cumsum(p)
        describe(out, p, cum)
        us = M.boundary_us(p)
        gen = ScriptGen(lambda k, size: us)
        parr = np.array(p, dtype=np.float64)
        ok, data = A.call(dg.generate_data_from_prob_dist, parr, len(us), seed_or_generator=gen)
        out.ops += 1
        out.traces += 1
        tot += len(us)
        out.count("boundary_numbers", len(us))
        out.count("boundary_at_or_above_total", sum(1 for u in us if u >= cum[-1]))
        if not ok:
            fail_once(out, "generate_data_from_prob_dist:boundary:raises", "%s p=%r: %s" % (name, p, A.fmt_exc(data)))
            continue
        if gen.calls != [len(us)]:
            fail_once(out, "generate_data_from_prob_dist:boundary:generator-not-asked-once-for-n", "%s: calls %r" % (name, gen.calls))
        if not np.array_equal(parr, np.array(p)):
            fail_once(out, "generate_data_from_prob_dist:boundary:argument-mutated", name)
        judge_outcomes(out, name, p, cum, us, data, "boundary")
        dig.append(np.array(data if isinstance(data, list) and all(type(d) is int for d in data) else [-1]))
    inner(out, tot - 1)
    out.digest = A.digest(*dig) if dig else ""
    out.outcome = "ok" if not out.fails else "fail"
    return out


def ex_grid(prm, seed):
    out = Out()
    dg = pool(seed).dg
    dists = M.distributions(prm["tier"])[prm["lo"]:prm["hi"]]
    N = 2 ** prm["bits"]
    grids = {"grid": np.arange(N) / float(N), "offset-grid": (np.arange(N) + 0.5) / float(N)}
    dig = []
    for name, p in dists:
        cum = M.float_cumsum(p)
        for gname, us in grids.items():
            gen = ScriptGen(lambda k, size: us)
            ok, data = A.call(dg.generate_data_from_prob_dist, np.array(p, dtype=np.float64), N, seed_or_generator=gen)
            out.ops += 1
            out.traces += 1
            out.count("grid_tables")
            if not ok:
                fail_once(out, "generate_data_from_prob_dist:grid:raises", "%s: %s" % (name, A.fmt_exc(data)))
                continue
            judge_outcomes(out, name, p, cum, us, data, "grid")
            arr = np.array([d if type(d) is int and 0 <= d < len(p) else 0 for d in data] if isinstance(data, list) else [0])
            cnt = np.bincount(arr, minlength=len(p))
            out.count("grid_outcome_classes_hit", int((cnt > 0).sum()))
            dev = np.abs(cnt - N * np.array(p))
            if dev.max() > 1 + 1e-6:
                i = int(dev.argmax())
                fail_once(out, "generate_data_from_prob_dist:grid:fraction-deviates-from-p",
                          "%s (%s, N=%d): outcome %d of probability %r received %d numbers (N p = %r)" % (name, gname, N, i, p[i], cnt[i], N * p[i]))
            dig.append(cnt)
    # an explicitly passed (looser) tolerance is a tolerance on the SUM of the vector: it does not change which outcomes are drawn
    if prm["lo"] == 0:
        extra = [("small-entries-a", [0.00390625, 0.49609375, 0.5]), ("small-entries-b", [0.25, 0.0078125, 0.7421875]),
                 ("small-entries-c", [0.0078125] * 4 + [0.96875])]
        for name, p in extra:
            cum = M.float_cumsum(p)
            us = (np.arange(N) + 0.5) / float(N)
            for form in ("keyword", "positional", "global-setting"):
                gen = ScriptGen(lambda k, size: us)
                parr = np.array(p, dtype=np.float64)
                if form == "keyword":
                    ok, data = A.call(dg.generate_data_from_prob_dist, parr, N, seed_or_generator=gen, atol=1e-2)
                elif form == "positional":
                    ok, data = A.call(dg.generate_data_from_prob_dist, parr, N, gen, 1e-2)
                else:
                    from quara.settings import Settings
                    keep = Settings.get_atol()
                    Settings.set_atol(1e-2)
                    try:
                        ok, data = A.call(dg.generate_data_from_prob_dist, parr, N, seed_or_generator=gen)
                    finally:
                        Settings.set_atol(keep)
                out.ops += 1
                out.traces += 1
                out.count("explicit_tolerance_tables")
                if not ok:
                    fail_once(out, "generate_data_from_prob_dist:explicit-tolerance:raises:" + form, "%s atol=1e-2: %s" % (name, A.fmt_exc(data)))
                    continue
                judge_outcomes(out, name, p, cum, us, data, "explicit-tolerance")
                arr = np.array([d if type(d) is int and 0 <= d < len(p) else 0 for d in data] if isinstance(data, list) else [0])
                cnt = np.bincount(arr, minlength=len(p))
                dev = np.abs(cnt - N * np.array(p))
                if dev.max() > 1 + 1e-6:
                    i = int(dev.argmax())
                    fail_once(out, "generate_data_from_prob_dist:explicit-tolerance:fraction-deviates-from-p:" + form,
                              "%s with atol=1e-2 (%s), N=%d: outcome %d of probability %r received %d numbers (N p = %r)" % (name, form, N, i, p[i], cnt[i], N * p[i]))
    inner(out, 2 * len(dists) - 1)
    out.digest = A.digest(*dig) if dig else ""
    out.outcome = "ok" if not out.fails else "fail"
    return out


# ---- true / tester objects with Born probabilities between 1e-13 and 1e-8 (real scipy sampler) ---------------------------

def ex_tiny(prm, seed):
    """nearly pure objects measured in their eigenbasis: some Born probabilities lie in (1e-13, 1e-8). Every tomography-level
    generator must deliver data (no exception) and valid empirical distributions."""
    from quara.protocol.qtomography.standard.standard_qst import StandardQst
    from quara.protocol.qtomography.standard.standard_povmt import StandardPovmt
    from quara.protocol.qtomography.standard.standard_qpt import StandardQpt
    from quara.protocol.qtomography.standard.standard_qmpt import StandardQmpt
    out = Out()
    c = A.make_system("Q1")
    delta = prm["delta"]
    I2 = np.eye(2, dtype=complex)
    P0, P1 = np.diag([1.0, 0.0]).astype(complex), np.diag([0.0, 1.0]).astype(complex)
    xp = np.array([[1, 1], [1, 1]], dtype=complex) / 2
    yp = np.array([[1, -1j], [1j, 1]], dtype=complex) / 2
    rho = (1 - delta) * P0 + delta * I2 / 2
    povms = [A.q_povm(c, [P0, P1]), A.q_povm(c, [xp, I2 - xp]), A.q_povm(c, [yp, I2 - yp])]
    states = [A.q_state(c, rho), A.q_state(c, xp), A.q_state(c, yp), A.q_state(c, P1)]
    cases = {
        "StandardQst": (StandardQst(list(povms)), A.q_state(c, rho)),
        "StandardPovmt": (StandardPovmt(list(states), 2), A.q_povm(c, [P0, P1])),
        "StandardQpt": (StandardQpt(list(states), list(povms)), A.q_gate(c, [I2])),
        "StandardQmpt": (StandardQmpt(list(states), list(povms), 2), A.q_mprocess(c, [[P0], [P1]])),
    }
    n = 0
    for cname, (qt, true) in cases.items():
        okp, pds = A.call(qt.calc_prob_dists, true)
        if not okp:
            raise HarnessError("tiny: model distributions unavailable: %s" % A.fmt_exc(pds))
        tiny = sum(1 for pd in pds for x in np.asarray(pd, float).ravel() if 0 < abs(x) < 1e-8)
        out.count("tiny_model_probabilities", tiny)
        calls = [("generate_empi_dists", lambda: qt.generate_empi_dists(true, 50, 5)),
                 ("generate_empi_dist", lambda: [qt.generate_empi_dist(0, true, 50, 5)]),
                 ("generate_empi_dists_sequence", lambda: [e for step in qt.generate_empi_dists_sequence(true, [10, 50], 5) for e in step])]
        for fname, fn in calls:
            ok, val = A.call(fn)
            out.ops += 1
            out.traces += 1
            n += 1
            site = "%s.%s" % (cname, fname)
            if not ok:
                fail_once(out, "%s:raises:tiny-born-probability:%s" % (site, type(val).__name__),
                          "true/tester object depolarised by %g (a Born probability of %g): %s" % (delta, delta / 2, A.fmt_exc(val)))
                continue
            out.count("tiny_generators_delivered")
            for (N, q) in val:
                q = np.asarray(q, dtype=float)
                k = q * N
                if q.min() < 0 or abs(q.sum() - 1) > 1e-12 or np.abs(k - np.round(k)).max() > 1e-9 * N:
                    fail_once(out, "%s:invalid-empirical-distribution:tiny-born-probability" % site, "N=%d q=%r" % (N, q.tolist()))
                    break
    inner(out, max(n - 1, 0))
    out.outcome = "ok" if not out.fails else "fail"
    return out


# ---- the caller's stream reaches the sampler (data entry points) -----------------------------------------

def ex_plumbing(prm, seed):
    out = Out()
    P = pool(seed)
    ents = [e for e in P.entries[prm["cfg"]] if e.kind == "data"]
    n_items = 0
    for e in ents:
        def script(k, size):
            n = int(size)
            return ((np.arange(n) + 0.5) / max(n, 1) + 0.37 * k) % 1.0
        gen = ScriptGen(script)
        arg = [gen] * len(e.ref_requests) if e.per_item_seed else gen
        ok, val = invoke(out, e, arg)
        out.traces += 1
        if not ok:
            fail_once(out, "%s:scripted-generator:raises" % e.name, A.fmt_exc(val))
            continue
        want_calls = [n for n, _ in e.ref_requests]
        out.count("plumbing_calls_checked", len(want_calls))
        if gen.calls != want_calls:
            fail_once(out, "%s:scripted-generator:numbers-not-drawn-from-the-callers-stream" % e.name,
                      "the generator handed in was asked %r, expected one request per schedule %r" % (gen.calls, want_calls))
            continue
        check_validity(out, e, val, "scripted-generator")
        try:
            items = M.disassemble(e.paths, val, e.empty)
        except M.Structure:
            continue
        for k, ((n, p), it) in enumerate(zip(e.ref_requests, items)):
            us = script(k, n)
            cum = np.array(M.float_cumsum(p))
            want = M.ref_inverse_cdf(p, us)
            safe = [np.abs(cum - u).min() > 1e-9 for u in us]
            n_items += len(us)
            if isinstance(it, list) and len(it) == len(us) and any(s and a != b for s, a, b in zip(safe, it, want)):
                fail_once(out, "%s:scripted-generator:outcome-not-inverse-cdf-of-born-distribution" % e.name,
                          "p=%r us=%r got %r want %r" % (p, us, it, want))
    # documented errors of generate_dataset_from_prob_dists
    dg = P.dg
    for args in ((P.Ps, [1, 2]), (P.Ps, [1, 2, 3, 4])):
        ok, val = A.call(dg.generate_dataset_from_prob_dists, *args)
        out.ops += 1
        if ok or not isinstance(val, ValueError):
            fail_once(out, "generate_dataset_from_prob_dists:length-mismatch-not-rejected", "data_nums %r -> %r" % (args[1], val))
        else:
            out.count("plumbing_documented_error")
    ok, val = A.call(dg.generate_dataset_from_prob_dists, P.Ps, [1, 2, 3], [1, 2])
    out.ops += 1
    if ok or not isinstance(val, ValueError):
        fail_once(out, "generate_dataset_from_prob_dists:seed-list-length-mismatch-not-rejected", "%r" % (val,))
    else:
        out.count("plumbing_documented_error")
    inner(out, n_items)
    out.outcome = "ok" if not out.fails else "fail"
    return out


# ---- multinomial entry points: request traces --------------------------------------------------------------

def streams_snapshot(G, H):
    return M.rs_key(np.random.get_state()), M.bg_key(G.bit_generator.state), M.bg_key(H.bit_generator.state)


def ex_requests(prm, seed):
    out = Out()
    P = pool(seed)
    ent = next(e for e in P.entries[prm["cfg"]] if e.name == prm["entry"])
    mode = prm["mode"]
    tag = {"int": "int-seed", "gen": "generator", "none": "global-state"}[mode]
    G = np.random.Generator(np.random.MT19937(G_SEED))
    H = np.random.Generator(np.random.PCG64(5))
    np.random.seed(GLOBAL0)
    before = streams_snapshot(G, H)
    rec = Recorder()
    with Patched(P.dg, rec):
        ok, val = invoke(out, ent, ent.arg(mode, G))
    after = streams_snapshot(G, H)
    out.traces += 1
    out.count("requests_checked")
    out.count("requests_mode_" + mode)
    out.nontrivial = len(ent.ref_requests) > 0
    if not ok:
        out.fail("%s:%s:raises" % (ent.name, tag), A.fmt_exc(val))
        out.outcome = "raises"
        return out
    if before != after:
        which = [n for n, a, b in zip(("global-state", "shared-generator", "bystander-generator"), before, after) if a != b]
        out.fail("%s:%s:stray-draw:%s" % (ent.name, tag, "+".join(which)),
                 "streams moved although every multinomial request was answered by the recording sampler")
    want = ent.ref_requests
    got = rec.req
    if [int(n) for n, _, _ in got] != [n for n, _ in want]:
        out.fail("%s:%s:request-sizes-or-order" % (ent.name, tag), "requested sizes %r, reference schedule order %r"
                 % ([n for n, _, _ in got], [n for n, _ in want]))
        out.outcome = "bad-trace"
        return out
    for k, ((n, p, rs), (_, pref)) in enumerate(zip(got, want)):
        out.count("born_p_compared")
        pref = np.asarray(pref, dtype=float)
        if p.shape != pref.shape or np.abs(p - pref).max() > 1e-9:
            fail_once(out, "%s:%s:request-distribution" % (ent.name, tag), "request %d: p=%r reference %r" % (k, p, pref))
        if mode == "gen":
            good = rs is G
        elif mode == "none":
            good = rs is None or rs is np.random or rs is np.random.mtrand._rand
        else:
            good = (isinstance(rs, np.random.Generator) and rs is not G and rs is not H and rs is got[0][2]
                    and isinstance(rs.bit_generator, np.random.MT19937)
                    and M.bg_key(rs.bit_generator.state) == M.bg_key(np.random.MT19937(INT_SEED).state))
        if not good:
            fail_once(out, "%s:%s:request-not-on-the-callers-stream" % (ent.name, tag), "request %d carries random_state=%r" % (k, rs))
    # the output is made of exactly the sampler's answers, in the documented nesting
    rec2 = Recorder()
    items = [(int(n), rec2.rvs(n, p) / int(n)) for n, p, _ in got]
    exp = M.assemble(ent.paths, items, ent.empty)
    if not M.same(val, exp):
        out.fail("%s:%s:output-not-the-sampled-counts-over-n" % (ent.name, tag), "got %r\nexpected %r" % (val, exp))
    check_validity(out, ent, val, tag)
    out.outcome = "ok" if not out.fails else "fail"
    return out


# ---- E1: calc_empi_dist_sequence ----------------------------------------------------------------------------

def ex_empi(prm, seed):
    out = Out()
    dg = pool(seed).dg
    if prm["alpha"] == "plural":
        return ex_empi_plural(out, dg)
    mnum = prm["mnum"]
    alpha = {"A0": (0, 1, 2), "A1": (-1, 0, 1)}[prm["alpha"]]
    L = prm["L"]
    head = list(prm["head"]) if isinstance(prm["head"], list) else []
    if mnum < 0:
        datas = [[0, 1]]
    else:
        datas = [head + list(t) for t in itertools.product(alpha, repeat=L - len(head))]
    nss = list(M.all_lists(range(1, prm["nsmax"] + 1), prm["nslen"]))
    n = 0
    hist = {}
    for data in datas:
        for ns in nss:
            n += 1
            kind, ref = M.ref_empi(mnum, data, ns)
            d_in, ns_in = list(data), list(ns)
            ok, val = A.call(dg.calc_empi_dist_sequence, mnum, d_in, ns_in)
            out.ops += 1
            out.traces += 1
            key = "empi_" + kind + ("_" + ref if kind == "error" else "")
            hist[key] = hist.get(key, 0) + 1
            if d_in != data or ns_in != ns:
                fail_once(out, "calc_empi_dist_sequence:argument-mutated", "data=%r num_sums=%r" % (data, ns))
            if kind == "error":
                if ok:
                    fail_once(out, "calc_empi_dist_sequence:accepted:%s" % ref, "measurement_num=%d data=%r num_sums=%r -> %r" % (mnum, data, ns, val))
                elif not isinstance(val, ValueError):
                    fail_once(out, "calc_empi_dist_sequence:wrong-error-type:%s" % ref, "data=%r num_sums=%r: %s" % (data, ns, A.fmt_exc(val)))
                continue
            if not ok:
                if kind == "unspecified" and isinstance(val, ValueError):
                    continue
                fail_once(out, "calc_empi_dist_sequence:rejected-valid-request", "measurement_num=%d data=%r num_sums=%r: %s" % (mnum, data, ns, A.fmt_exc(val)))
                continue
            good = isinstance(val, list) and len(val) == len(ref)
            if good:
                for (n_ref, cnt, dist), it in zip(ref, val):
                    if not (isinstance(it, tuple) and len(it) == 2 and it[0] == n_ref and isinstance(it[1], np.ndarray)
                            and it[1].dtype == np.float64 and it[1].shape == dist.shape and np.array_equal(it[1], dist)
                            and it[1].min(initial=0.0) >= 0 and abs(it[1].sum() - 1) <= 1e-12):
                        good = False
            if not good:
                fail_once(out, "calc_empi_dist_sequence:not-the-prefix-counts-over-n",
                          "measurement_num=%d data=%r num_sums=%r -> %r, expected %r" % (mnum, data, ns, val, [(a, c) for a, _, c in ref]))
                continue
            for a, b in zip(val, val[1:]):
                ca, cb = np.round(a[1] * a[0]), np.round(b[1] * b[0])
                hist["empi_monotone_pairs"] = hist.get("empi_monotone_pairs", 0) + 1
                if np.any(cb < ca) or cb.sum() - ca.sum() != b[0] - a[0]:
                    fail_once(out, "calc_empi_dist_sequence:prefixes-inconsistent", "data=%r num_sums=%r -> %r" % (data, ns, val))
    for k, v in hist.items():
        out.count(k, v)
    inner(out, n - 1, n - 1 if L > 0 else 0)
    out.nontrivial = L > 0
    out.outcome = "ok" if not out.fails else "fail"
    return out


def ex_empi_plural(out, dg):
    trip = [(3, [0, 1, 2, 2, 1, 0], [2, 6]), (2, [1, 1, 0], [1, 2, 3]), (3, [2], []), (2, [0, 1], [3])]
    for idxs in itertools.chain.from_iterable(itertools.product(range(4), repeat=r) for r in range(0, 4)):
        ms, ds, nss = [trip[i][0] for i in idxs], [list(trip[i][1]) for i in idxs], [list(trip[i][2]) for i in idxs]
        ok, val = A.call(dg.calc_empi_dists_sequence, ms, ds, nss)
        out.ops += 1
        out.traces += 1
        refs = [M.ref_empi(*trip[i]) for i in idxs]
        out.count("empi_plural")
        if any(k == "error" for k, _ in refs):
            if ok or not isinstance(val, ValueError):
                fail_once(out, "calc_empi_dists_sequence:invalid-member-not-rejected", "%r -> %r" % (idxs, val))
            continue
        exp = [[(n, dist) for n, _, dist in r] for _, r in refs]
        if not ok or not M.same(val, exp):
            fail_once(out, "calc_empi_dists_sequence:not-the-member-wise-result", "%r -> %r expected %r" % (idxs, val, exp))
    for args in (([2], [[0], [1]], [[1]]), ([2, 2], [[0]], [[1]]), ([2], [[0]], [[1], [1]]), ([2], [[0]], [])):
        ok, val = A.call(dg.calc_empi_dists_sequence, *args)
        out.ops += 1
        if ok or not isinstance(val, ValueError):
            fail_once(out, "calc_empi_dists_sequence:length-mismatch-not-rejected", "%r -> %r" % (args, val))
    inner(out, 84)
    out.outcome = "ok" if not out.fails else "fail"
    return out


# ---- E2: histories ------------------------------------------------------------------------------------------

class World:
    """the implementation-side streams of one case plus their reference clones"""

    def __init__(self, P):
        self.P = P
        self.G = np.random.Generator(np.random.MT19937(G_SEED))
        self.H = np.random.Generator(np.random.PCG64(5))
        self.h0 = M.bg_key(self.H.bit_generator.state)
        self.ref = M.RefStreams()
        self.E = P.make_experiment()
        rs = np.random.RandomState(GLOBAL0)
        self.s0 = (rs.get_state(), self.G.bit_generator.state)

    @staticmethod
    def key(state):
        return M.rs_key(state[0]), M.bg_key(state[1])


def int_prediction(P, ent, seed):
    k = (id(ent), seed)
    if k not in P.int_pred:
        P.int_pred[k] = expected_output(ent, seed=seed)[0]
    return P.int_pred[k]


def transition(out, W, state, ev, hist):
    """run one event from `state`; all invariants are checked here; returns the implementation's next state"""
    P = W.P
    np.random.set_state(state[0])
    W.G.bit_generator.state = state[1]
    W.ref.load(state[0], state[1])
    out.transitions += 1
    label = ev[0]
    mode = None
    if ev[0] == "call":
        ent = P.entries[0][ev[1]]
        mode = ev[2]
        tag = {"int": "int-seed", "gen": "generator", "none": "global-state"}[mode]
        label = "%s:%s" % (ent.name, tag)
        if ent.cap is None:
            fail_once(out, "%s:raises-or-malformed-request-trace" % ent.name, "entry point unusable: %s" % A.fmt_exc(ent.cap_err))
            return state
        ok, val = invoke(out, ent, ent.arg(mode, W.G))
        out.traces += 1
        if not ok:
            fail_once(out, "%s:raises" % label, "history %r: %s" % (hist, A.fmt_exc(val)))
        else:
            if mode == "int":
                exp = int_prediction(P, ent, INT_SEED)
            else:
                exp, _ = expected_output(ent, stream=W.ref.g if mode == "gen" else W.ref.rs)
            if not M.same(val, exp):
                fail_once(out, "%s:output-differs-from-reference" % label, "history %r\n got %r\n reference %r" % (hist, val, exp))
            check_validity(out, ent, val, tag)
    elif ev[0] == "global-draw":
        np.random.random()
        W.ref.rs.random_sample()
    elif ev[0] == "generator-draw":
        W.G.random()
        W.ref.g.random()
    elif ev[0] == "reset_seed_data":
        ok, val = A.call(W.E.reset_seed_data, ev[1])
        out.ops += 1
        if ev[1] is not None:
            W.ref.rs.seed(ev[1])
        out.count("hist_reseed")
        label = "Experiment.reset_seed_data:%s" % ("int" if ev[1] is not None else "None")
        if not ok:
            fail_once(out, label + ":raises", A.fmt_exc(val))
        elif W.E.seed_data != ev[1]:
            fail_once(out, label + ":seed_data-not-kept", "%r" % (W.E.seed_data,))
    elif ev[0] == "construct-tomography":
        ok, val = A.call(P.make_qst, seed_data=ev[1])
        out.ops += 1
        if ev[1] is not None:
            W.ref.rs.seed(ev[1])
        out.count("hist_construct")
        label = "StandardQst.__init__:seed_data-%s" % ("int" if ev[1] is not None else "None")
        if not ok:
            fail_once(out, label + ":raises", A.fmt_exc(val))
    elif ev[0] == "np.random.seed":
        np.random.seed(ev[1])
        W.ref.rs.seed(ev[1])
    new = (np.random.get_state(), W.G.bit_generator.state)
    kg, kG = M.rs_key(new[0]), M.bg_key(new[1])
    rg, rG = M.rs_key(W.ref.rs.get_state()), M.bg_key(W.ref.g.bit_generator.state)
    og, oG = M.rs_key(state[0]), M.bg_key(state[1])
    if kg != rg:
        what = "global-state-moved" if rg == og else "global-state-differs-from-reference-stream"
        fail_once(out, "%s:%s" % (label, what), "history %r then %r" % (hist, ev))
    if kG != rG:
        what = "shared-generator-moved" if rG == oG else "generator-state-differs-from-reference-stream"
        fail_once(out, "%s:%s" % (label, what), "history %r then %r" % (hist, ev))
    if M.bg_key(W.H.bit_generator.state) != W.h0:
        fail_once(out, "%s:bystander-generator-moved" % label, "history %r then %r" % (hist, ev))
        W.H.bit_generator.state = dict(np.random.PCG64(5).state)
    if mode == "int" and kg == og and kG == oG:
        out.count("hist_int_ok")
    if mode == "gen":
        if kG != oG:
            out.count("hist_gen_advanced")
        else:
            fail_once(out, "%s:generator-not-advanced" % label, "history %r then %r" % (hist, ev))
    if mode == "none":
        if kg != og:
            out.count("hist_none_advanced")
        else:
            fail_once(out, "%s:global-state-not-advanced" % label, "history %r then %r" % (hist, ev))
    if mode is not None and hist and hist[-1][0] in ("global-draw", "generator-draw"):
        out.count("hist_after_unrelated_draw")
    return new


def ex_histories(prm, seed):
    out = Out()
    P = pool(seed)
    W = World(P)
    menu = P.menu
    cur = W.s0
    hist = []
    for e in prm["prefix"]:
        ev = menu[e]
        nxt = transition(out, W, cur, ev, hist)
        hist = hist + [ev]
        if W.key(nxt) == W.key(cur):
            out.count("hist_selfloop")
            out.outcome = "prefix-returns-to-a-visited-state"
            out.digest = A.digest(np.array([out.transitions]))
            return out
        cur = nxt
    remaining = prm["depth"] - len(prm["prefix"])
    seen = {W.key(W.s0), W.key(cur)}
    frontier = [(cur, hist)]
    for d in range(remaining):
        nxt_frontier = []
        for state, h in frontier:
            k0 = W.key(state)
            for ev in menu:
                new = transition(out, W, state, ev, h)
                k = W.key(new)
                if k == k0:
                    out.count("hist_selfloop")
                if k not in seen:
                    seen.add(k)
                    if d + 1 < remaining:
                        nxt_frontier.append((new, h + [ev]))
        frontier = nxt_frontier
    out.states = len(seen)
    out.outcome = "ok" if not out.fails else "fail"
    out.digest = A.digest(np.array([len(seen), out.transitions]))
    return out


# ---- successive draws / all seeds -------------------------------------------------------------------------

def ex_successive(prm, seed):
    out = Out()
    P = pool(seed)
    ent = next(e for e in P.entries[0] if e.name == prm["entry"])
    if ent.cap is None:
        out.fail("%s:raises-or-malformed-request-trace" % ent.name, "entry point unusable: %s" % A.fmt_exc(ent.cap_err))
        return out
    n = 0
    # shared generators (MT19937 and PCG64) and the global state: three calls in a row
    for kind in ("mt19937", "pcg64", "global"):
        if kind == "mt19937":
            G, refs = np.random.Generator(np.random.MT19937(321)), np.random.Generator(np.random.MT19937(321))
        elif kind == "pcg64":
            G, refs = np.random.Generator(np.random.PCG64(321)), np.random.Generator(np.random.PCG64(321))
        else:
            np.random.seed(321)
            G, refs = None, np.random.RandomState(321)
        tag = "global-state" if G is None else "generator"
        outs, refouts = [], []
        for rep in range(3):
            ok, val = invoke(out, ent, ent.arg("none" if G is None else "gen", G))
            out.traces += 1
            n += 1
            if not ok:
                fail_once(out, "%s:%s:raises" % (ent.name, tag), A.fmt_exc(val))
                break
            exp, _ = expected_output(ent, stream=refs)
            if not M.same(val, exp):
                fail_once(out, "%s:%s:successive-output-differs-from-reference-sequence:%s" % (ent.name, tag, kind),
                          "call %d: got %r reference %r" % (rep, val, exp))
            check_validity(out, ent, val, tag)
            outs.append(val)
            refouts.append(exp)
        # "successive draws differ": wherever the reference sequence moves on, the implementation (equal to it) does too
        for a, b in itertools.combinations(range(len(outs)), 2):
            if not M.same(outs[a], outs[b]) and not M.same(refouts[a], refouts[b]):
                out.count("succ_differs")
            elif M.same(outs[a], outs[b]) and not M.same(refouts[a], refouts[b]):
                fail_once(out, "%s:%s:successive-outputs-identical:%s" % (ent.name, tag, kind), "calls %d and %d: %r" % (a, b, outs[a]))
        if kind == "global":
            # reproducible after np.random.seed
            np.random.seed(321)
            ok, val = invoke(out, ent, None)
            if ok and outs and not M.same(val, outs[0]):
                fail_once(out, "%s:global-state:not-reproducible-after-np.random.seed" % ent.name, "%r vs %r" % (val, outs[0]))
    # every seed: twice, with unrelated draws in between, against the reference
    G = np.random.Generator(np.random.MT19937(G_SEED))
    seen = []
    for s in SEEDS:
        exp, _ = expected_output(ent, seed=s)
        for rep in range(2):
            np.random.random(rep + 1)
            G.random(3)
            g0 = M.rs_key(np.random.get_state())
            ok, val = invoke(out, ent, ent.arg("int", G, seed=s))
            out.traces += 1
            n += 1
            if not ok:
                fail_once(out, "%s:int-seed:raises" % ent.name, "seed %d: %s" % (s, A.fmt_exc(val)))
                continue
            if M.rs_key(np.random.get_state()) != g0:
                fail_once(out, "%s:int-seed:global-state-moved" % ent.name, "seed %d" % s)
            if not M.same(val, exp):
                fail_once(out, "%s:int-seed:output-differs-from-reference" % ent.name, "seed %d call %d: got %r reference %r" % (s, rep, val, exp))
            check_validity(out, ent, val, "int-seed")
        seen.append(exp)
    distinct = sum(1 for a, b in itertools.combinations(range(len(seen)), 2) if not M.same(seen[a], seen[b]))
    out.count("succ_seeds_distinct", distinct)
    inner(out, n - 1)
    out.outcome = "ok" if not out.fails else "fail"
    return out


# ---- reference table from a fresh interpreter ----------------------------------------------------------------

FRESH_SEEDS = (7, 12345)


def fresh_table(seed):
    """run in a fresh interpreter: nothing but the seeded calls themselves"""
    P = pool(seed)
    tab = {}
    scratch = Out()
    for ent in P.entries[0]:
        for s in FRESH_SEEDS:
            ok, val = invoke(scratch, ent, ent.arg("int", None, seed=s))
            tab["%s|%d" % (ent.name, s)] = M.to_jsonable(val) if ok else "raises:" + type(val).__name__
    return tab


def fresh_main(seed):
    sys.stdout.write("C14TABLE" + json.dumps(fresh_table(seed)) + "\n")


def ex_fresh(prm, seed):
    out = Out()
    P = pool(seed)
    r = subprocess.run([sys.executable, "-W", "ignore", "-c", "from mc.props import c14; c14.fresh_main(%d)" % seed],
                       capture_output=True, text=True, env=dict(os.environ), cwd=os.path.dirname(os.path.dirname(os.path.dirname(os.path.abspath(__file__)))))
    lines = [ln for ln in r.stdout.splitlines() if ln.startswith("C14TABLE")]
    if r.returncode != 0 or not lines:
        raise AssertionError("harness: fresh interpreter failed: %s" % r.stderr[-1500:])
    table = json.loads(lines[-1][len("C14TABLE"):])
    # here: after a polluted past
    np.random.seed(1)
    np.random.random(17)
    G = np.random.Generator(np.random.MT19937(G_SEED))
    n = 0
    for ent in P.entries[0]:
        for s in FRESH_SEEDS:
            np.random.standard_normal(3)
            ok, val = invoke(out, ent, ent.arg("int", G, seed=s))
            n += 1
            got = M.to_jsonable(val) if ok else "raises:" + type(val).__name__
            out.count("fresh_compared")
            out.traces += 1
            if got != table["%s|%d" % (ent.name, s)]:
                fail_once(out, "%s:int-seed:differs-from-fresh-process-table" % ent.name,
                          "seed %d: here %r, fresh interpreter %r" % (s, got, table["%s|%d" % (ent.name, s)]))
            if ok and ent.cap is not None:
                exp, _ = expected_output(ent, seed=s)
                if not M.same(val, exp):
                    fail_once(out, "%s:int-seed:output-differs-from-reference" % ent.name, "seed %d: got %r reference %r" % (s, val, exp))
    inner(out, n - 1)
    out.outcome = "ok" if not out.fails else "fail"
    return out
