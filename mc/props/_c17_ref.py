"""Textbook reference tables for C17 (catalogues).  Pure numpy, no quara code and no quara data.

Everything a catalogue name can mean is written out here from the usual definitions:
Pauli / level-Pauli (Gell-Mann type) matrices, the named one-qubit states, Bell / GHZ / W states,
projective measurements, Lueders ("type1") and measure-and-reset ("type2") instruments, rotation
gates exp(-i theta/2 sigma), Clifford+T gates, CX / CZ / SWAP / ZX90 / ZZ90, Toffoli and Fredkin as truth
tables, two-qutrit gates exp(-i sum_k theta_k/2 A_k (x) B_k).

Conventions taken from the library's own docstrings (they are the library's to choose):
  * "<axis><angle>" gates are exp(-i angle/2 sigma_axis); "zm90" is the -90 degree rotation.
  * multi-system objects are ordered by ascending elemental-system name; for asymmetric gates `ids` lists the
    ROLES: cx / zx90 ids = [control, target]; toffoli ids = [control, control, target]; fredkin ids = [control,
    swapped, swapped].
  * POVM / instrument outcome x of "x", "y", "z" is the eigenstate named "<axis>x"; qutrit measurements
    "<levels><axis>3" have outcomes (+ state, - state, the remaining level).
"""
import itertools
import math
import re

import numpy as np

C = np.complex128
S2 = 1 / math.sqrt(2)
S3 = 1 / math.sqrt(3)

I2 = np.eye(2, dtype=C)
PX = np.array([[0, 1], [1, 0]], dtype=C)
PY = np.array([[0, -1j], [1j, 0]], dtype=C)
PZ = np.array([[1, 0], [0, -1]], dtype=C)
PAULI = {"i": I2, "x": PX, "y": PY, "z": PZ}
I3 = np.eye(3, dtype=C)


def ket(d, i):
    v = np.zeros(d, dtype=C)
    v[i] = 1
    return v


def proj(v):
    v = np.asarray(v, dtype=C)
    return np.outer(v, v.conj())


def kron_all(ms):
    out = np.asarray(ms[0], dtype=C)
    for m in ms[1:]:
        out = np.kron(out, np.asarray(m, dtype=C))
    return out


def level_pauli(levels, axis):
    """sigma_axis embedded on the two levels i<j of a qutrit (zero on the third level)."""
    i, j = int(levels[0]), int(levels[1])
    M = np.zeros((3, 3), dtype=C)
    if axis == "x":
        M[i, j] = M[j, i] = 1
    elif axis == "y":
        M[i, j] = -1j
        M[j, i] = 1j
    elif axis == "z":
        M[i, i] = 1
        M[j, j] = -1
    else:
        raise ValueError(axis)
    return M


# ------------------------------------------------------------------ named bases (textbook)

def comp_basis(d, column_major=False):
    out = []
    for a in range(d):
        for b in range(d):
            E = np.zeros((d, d), dtype=C)
            if column_major:
                E[b, a] = 1
            else:
                E[a, b] = 1
            out.append(E)
    return out


def pauli_basis(n, normalized):
    one = [I2, PX, PY, PZ]
    if normalized:
        one = [S2 * m for m in one]
    return [kron_all(list(t)) for t in itertools.product(one, repeat=n)]


def gell_mann(normalized):
    """[sqrt(2/3) I, lambda_1 .. lambda_8] (Tr = 2 delta), divided by sqrt 2 when normalized"""
    l8 = S3 * np.diag([1, 1, -2]).astype(C)
    out = [math.sqrt(2 / 3) * I3, level_pauli("01", "x"), level_pauli("01", "y"), level_pauli("01", "z"),
           level_pauli("02", "x"), level_pauli("02", "y"), level_pauli("12", "x"), level_pauli("12", "y"), l8]
    if normalized:
        out = [S2 * m for m in out]
    return out


def generalized_gell_mann_1(d, normalized):
    """MathWorld ordering used by the library: for col: (sym, antisym for row<col), then the diagonal one
    (identity-like first).  Tr(B_a B_b) = 2 delta (1 delta when normalized)."""
    sc = 1.0 if not normalized else S2
    out = []
    for col in range(d):
        for row in range(col):
            Sm = np.zeros((d, d), dtype=C)
            Sm[row, col] = Sm[col, row] = 1
            Am = np.zeros((d, d), dtype=C)
            Am[row, col] = -1j
            Am[col, row] = 1j
            out += [sc * Sm, sc * Am]
        if col == 0:
            D = math.sqrt(2 / d) * np.eye(d, dtype=C)
        else:
            D = np.zeros((d, d), dtype=C)
            for k in range(col):
                D[k, k] = 1
            D[col, col] = -col
            D = math.sqrt(2 / (col * (col + 1))) * D
        out.append(sc * D)
    return out


def generalized_gell_mann(n, d, normalized):
    one = generalized_gell_mann_1(d, normalized)
    return [kron_all(list(t)) for t in itertools.product(one, repeat=n)]


def hermitian_basis(d, normalized):
    sc = S2 if normalized else 1.0
    out = []
    for col in range(d):
        for row in range(col):
            Sm = np.zeros((d, d), dtype=C)
            Sm[row, col] = Sm[col, row] = sc
            Am = np.zeros((d, d), dtype=C)
            Am[row, col] = -1j * sc
            Am[col, row] = 1j * sc
            out += [Sm, Am]
        D = np.zeros((d, d), dtype=C)
        D[col, col] = 1
        out.append(D)
    return out


# ------------------------------------------------------------------ states

Q1_STATES = {
    "x0": S2 * np.array([1, 1], dtype=C), "x1": S2 * np.array([1, -1], dtype=C),
    "y0": S2 * np.array([1, 1j], dtype=C), "y1": S2 * np.array([1, -1j], dtype=C),
    "z0": np.array([1, 0], dtype=C), "z1": np.array([0, 1], dtype=C),
    "a": S2 * np.array([1, np.exp(1j * math.pi / 4)], dtype=C),
}


def qutrit_state(name):
    """'<levels><axis><d>': the d-th eigenstate (0: +1, 1: -1) of sigma_axis on the two levels."""
    m = re.fullmatch(r"(01|12|02)([xyz])([01])", name)
    if not m:
        raise KeyError(name)
    lv, ax, dd = m.group(1), m.group(2), int(m.group(3))
    i, j = int(lv[0]), int(lv[1])
    amp = {"x": (1, 1), "y": (1, 1j), "z": (1, 0)}[ax] if dd == 0 else {"x": (1, -1), "y": (1, -1j), "z": (0, 1)}[ax]
    v = np.zeros(3, dtype=C)
    v[i], v[j] = amp
    return v / np.linalg.norm(v)


BELL = {
    "bell_phi_plus": S2 * np.array([1, 0, 0, 1], dtype=C), "bell_phi_minus": S2 * np.array([1, 0, 0, -1], dtype=C),
    "bell_psi_plus": S2 * np.array([0, 1, 1, 0], dtype=C), "bell_psi_minus": S2 * np.array([0, 1, -1, 0], dtype=C),
}


def state_vector(name):
    """(vector, dims tuple) of a catalogue state name; KeyError if the name is not one the textbook knows"""
    if name in Q1_STATES:
        return Q1_STATES[name], (2,)
    if name in BELL:
        return BELL[name], (2, 2)
    if name == "ghz":
        v = np.zeros(8, dtype=C)
        v[0] = v[7] = S2
        return v, (2, 2, 2)
    if name == "werner":  # the W state (|001> + |010> + |100>)/sqrt 3
        v = np.zeros(8, dtype=C)
        v[1] = v[2] = v[4] = S3
        return v, (2, 2, 2)
    if name == "0_1_2_superposition":
        return S3 * np.ones(3, dtype=C), (3,)
    if name == "00_11_22_superposition":
        v = np.zeros(9, dtype=C)
        v[0] = v[4] = v[8] = S3
        return v, (3, 3)
    parts = name.split("_")
    if all(p in Q1_STATES for p in parts):
        return kron_all([Q1_STATES[p] for p in parts]), (2,) * len(parts)
    vs = [qutrit_state(p) for p in parts]
    return kron_all(vs), (3,) * len(parts)


# ------------------------------------------------------------------ POVMs

def povm_single(name):
    """(list of matrices, dims, rank1?)"""
    if name in ("x", "y", "z"):
        return [proj(Q1_STATES[name + "0"]), proj(Q1_STATES[name + "1"])], (2,), True
    if name == "bell":
        return [proj(BELL[k]) for k in ("bell_phi_plus", "bell_phi_minus", "bell_psi_plus", "bell_psi_minus")], (2, 2), True
    if name == "z3":
        return [proj(ket(3, k)) for k in range(3)], (3,), True
    if name == "z2":
        return [proj(ket(3, 0)), proj(ket(3, 1)) + proj(ket(3, 2))], (3,), False
    m = re.fullmatch(r"(01|12|02)([xy])3", name)
    if m:
        lv, ax = m.group(1), m.group(2)
        rest = ({0, 1, 2} - {int(lv[0]), int(lv[1])}).pop()
        return [proj(qutrit_state(lv + ax + "0")), proj(qutrit_state(lv + ax + "1")), proj(ket(3, rest))], (3,), True
    raise KeyError(name)


def povm_matrices(name):
    parts = [povm_single(p) for p in name.split("_")]
    mats = parts[0][0]
    for ms, _, _ in parts[1:]:
        mats = [np.kron(a, b) for a, b in itertools.product(mats, ms)]
    dims = tuple(d for _, ds, _ in parts for d in ds)
    return mats, dims, all(r for _, _, r in parts)


# ------------------------------------------------------------------ instruments (measurement processes)

def mprocess_single(name):
    """(list over outcomes of Kraus lists, dims, has_pure_vectors)"""
    m = re.fullmatch(r"([xyz])-type([12])", name)
    if m:
        ax, ty = m.group(1), m.group(2)
        v0, v1 = Q1_STATES[ax + "0"], Q1_STATES[ax + "1"]
        if ty == "1":
            return [[proj(v0)], [proj(v1)]], (2,), True
        return [[np.outer(v0, v0.conj())], [np.outer(v0, v1.conj())]], (2,), False
    if name == "z3-type1":
        return [[proj(ket(3, k))] for k in range(3)], (3,), True
    if name == "z2-type1":
        return [[proj(ket(3, 0))], [proj(ket(3, 1)), proj(ket(3, 2))]], (3,), True
    if name == "z3-type2":
        return [[np.outer(ket(3, 0), ket(3, k))] for k in range(3)], (3,), False
    if name == "z2-type2":
        return [[np.outer(ket(3, 0), ket(3, 0))], [np.outer(ket(3, 0), ket(3, 1)), np.outer(ket(3, 0), ket(3, 2))]], (3,), False
    if name == "bell-type1":
        return [[proj(BELL[k])] for k in ("bell_phi_plus", "bell_phi_minus", "bell_psi_plus", "bell_psi_minus")], (2, 2), True
    if name == "xxparity-type1":
        XX = np.kron(PX, PX)
        return [[(np.eye(4) + XX) / 2], [(np.eye(4) - XX) / 2]], (2, 2), False
    if name == "zzparity-type1":
        ZZ = np.kron(PZ, PZ)
        return [[(np.eye(4) + ZZ) / 2], [(np.eye(4) - ZZ) / 2]], (2, 2), False
    raise KeyError(name)


# the catalogue POVM (name, or explicit matrices) an instrument must induce
MPROCESS_POVM = {"x-type1": "x", "y-type1": "y", "z-type1": "z", "x-type2": "x", "y-type2": "y", "z-type2": "z",
                 "z3-type1": "z3", "z2-type1": "z2", "z3-type2": "z3", "z2-type2": "z2", "bell-type1": "bell"}


def mprocess_kraus(name):
    parts = [mprocess_single(p) for p in name.split("_")]
    inst = parts[0][0]
    for ks, _, _ in parts[1:]:
        inst = [[np.kron(a, b) for a in ka for b in kb] for ka, kb in itertools.product(inst, ks)]
    dims = tuple(d for _, ds, _ in parts for d in ds)
    return inst, dims, all(p for _, _, p in parts)


# ------------------------------------------------------------------ gates

def rot2(sigma, theta):
    return math.cos(theta / 2) * I2 - 1j * math.sin(theta / 2) * sigma


def rot3(levels, axis, theta):
    s = level_pauli(levels, axis)
    P = s @ s  # projector on the two levels
    return I3 + (math.cos(theta / 2) - 1) * P - 1j * math.sin(theta / 2) * s


GATES_1Q = {
    "x90": rot2(PX, math.pi / 2), "x180": rot2(PX, math.pi), "x": PX,
    "y90": rot2(PY, math.pi / 2), "y180": rot2(PY, math.pi), "y": PY,
    "z90": rot2(PZ, math.pi / 2), "z180": rot2(PZ, math.pi), "z": PZ, "zm90": rot2(PZ, -math.pi / 2),
    "phase": np.diag([1, 1j]).astype(C), "phase_daggered": np.diag([1, -1j]).astype(C),
    "piover8": np.diag([1, np.exp(1j * math.pi / 4)]).astype(C),
    "piover8_daggered": np.diag([1, np.exp(-1j * math.pi / 4)]).astype(C),
    "hadamard": S2 * np.array([[1, 1], [1, -1]], dtype=C),
}


def perm_unitary(n, fn):
    """unitary of a classical reversible map on n bits: fn(bits tuple) -> bits tuple; bit 0 is the first
    (lowest-name) system"""
    U = np.zeros((2 ** n, 2 ** n), dtype=C)
    for bits in itertools.product((0, 1), repeat=n):
        out = fn(bits)
        i = int("".join(map(str, bits)), 2)
        o = int("".join(map(str, out)), 2)
        U[o, i] = 1
    return U


def on_positions(n, ops):
    """tensor product on n qubits with ops = {position: 2x2 matrix}, identity elsewhere"""
    return kron_all([ops.get(k, I2) for k in range(n)])


def ranks(ids):
    s = sorted(ids)
    return [s.index(i) for i in ids]


def gate_unitary(name, ids=None):
    """(U, dims) with U written in ascending-system order; ids = roles (see module docstring)."""
    if name in GATES_1Q:
        return GATES_1Q[name], (2,)
    if name in ("cx", "cz", "swap", "zx90", "zz90"):
        r = ranks(ids) if ids else [0, 1]
        c, t = r[0], r[1]
        if name == "cx":
            def f(b):
                b = list(b)
                if b[c]:
                    b[t] ^= 1
                return tuple(b)
            return perm_unitary(2, f), (2, 2)
        if name == "cz":
            return np.diag([1, 1, 1, -1]).astype(C), (2, 2)
        if name == "swap":
            return perm_unitary(2, lambda b: (b[1], b[0])), (2, 2)
        if name == "zx90":
            G = on_positions(2, {c: PZ, t: PX})
            return math.cos(math.pi / 4) * np.eye(4) - 1j * math.sin(math.pi / 4) * G, (2, 2)
        G = np.kron(PZ, PZ)
        return math.cos(math.pi / 4) * np.eye(4) - 1j * math.sin(math.pi / 4) * G, (2, 2)
    if name == "toffoli":
        r = ranks(ids)

        def f(b):
            b = list(b)
            if b[r[0]] and b[r[1]]:
                b[r[2]] ^= 1
            return tuple(b)
        return perm_unitary(3, f), (2, 2, 2)
    if name == "fredkin":
        r = ranks(ids)

        def f(b):
            b = list(b)
            if b[r[0]]:
                b[r[1]], b[r[2]] = b[r[2]], b[r[1]]
            return tuple(b)
        return perm_unitary(3, f), (2, 2, 2)
    m = re.fullmatch(r"(01|12|02)([xyz])(90|180)", name)
    if m:
        return rot3(m.group(1), m.group(2), math.radians(int(m.group(3)))), (3,)
    H = hamiltonian_2qutrit(name)
    w, V = np.linalg.eigh(H)
    return (V * np.exp(-1j * w)) @ V.conj().T, (3, 3)


_PART = re.compile(r"(i|(?:01|12|02)[xyz])(i|(?:01|12|02)[xyz])(90|180)")


def base3(tok):
    return I3 if tok == "i" else level_pauli(tok[:2], tok[2])


def hamiltonian_2qutrit(name):
    """sum over '_' separated parts '<A><B><angle>' of angle/2 * A (x) B"""
    H = np.zeros((9, 9), dtype=C)
    for part in name.split("_"):
        m = _PART.fullmatch(part)
        if not m or (m.group(1) == "i" and m.group(2) == "i"):
            raise KeyError(name)
        H = H + math.radians(int(m.group(3))) / 2 * np.kron(base3(m.group(1)), base3(m.group(2)))
    return H


# legacy constructor names -> catalogue names
LEGACY_GATES = {"get_x": "x", "get_y": "y", "get_z": "z", "get_h": "hadamard", "get_root_x": "x90", "get_root_y": "y90",
                "get_s": "phase", "get_sdg": "phase_daggered", "get_t": "piover8"}


def selfcheck():
    """sanity of the tables themselves (unitarity, normalisation, completeness); returns complaints"""
    msgs = []
    for n, U in GATES_1Q.items():
        if not np.allclose(U @ U.conj().T, I2, atol=1e-14):
            msgs.append("table gate %s not unitary" % n)
    for n, ids in [("cx", [0, 1]), ("cx", [1, 0]), ("cz", None), ("swap", None), ("zx90", [0, 1]), ("zx90", [1, 0]), ("zz90", None),
                   ("toffoli", [0, 1, 2]), ("toffoli", [1, 2, 0]), ("fredkin", [2, 0, 1]), ("01x90", None), ("12y180", None),
                   ("02z90", None), ("i01x90", None), ("01x02z90_12yi180", None)]:
        U, dims = gate_unitary(n, ids)
        d = int(np.prod(dims))
        if U.shape != (d, d) or not np.allclose(U @ U.conj().T, np.eye(d), atol=1e-13):
            msgs.append("table gate %s not unitary" % n)
    # x180 = -iX, hadamard maps z0 -> x0, cx truth table
    if not np.allclose(GATES_1Q["x180"], -1j * PX, atol=1e-15):
        msgs.append("x180")
    if not np.allclose(GATES_1Q["hadamard"] @ Q1_STATES["z0"], Q1_STATES["x0"], atol=1e-15):
        msgs.append("hadamard")
    U, _ = gate_unitary("cx", [1, 0])
    if not np.allclose(U @ kron_all([Q1_STATES["z0"], Q1_STATES["z1"]]), kron_all([Q1_STATES["z1"], Q1_STATES["z1"]])):
        msgs.append("cx reversed")
    for n in ("x", "y", "z", "bell", "z3", "z2", "01x3", "12y3", "02x3"):
        ms, dims, _ = povm_matrices(n)
        if not np.allclose(sum(ms), np.eye(int(np.prod(dims))), atol=1e-14):
            msgs.append("table povm %s incomplete" % n)
    for n in ("x-type1", "y-type2", "z3-type1", "z2-type2", "bell-type1", "xxparity-type1", "zzparity-type1", "x-type1_z2-type2"):
        inst, dims, _ = mprocess_kraus(n)
        tot = sum(K.conj().T @ K for ks in inst for K in ks)
        if not np.allclose(tot, np.eye(int(np.prod(dims))), atol=1e-14):
            msgs.append("table instrument %s incomplete" % n)
    for B, nrm in ((pauli_basis(2, True), 1), (gell_mann(True), 1), (gell_mann(False), 2), (generalized_gell_mann(1, 4, True), 1),
                   (hermitian_basis(3, True), 1)):
        G = np.array([[np.trace(a.conj().T @ b) for b in B] for a in B])
        if not np.allclose(G, nrm * np.eye(len(B)), atol=1e-13):
            msgs.append("table basis not orthogonal")
    if not all(np.allclose(a, b) for a, b in zip(gell_mann(True), generalized_gell_mann_1(3, True))):
        msgs.append("gell-mann vs generalized")
    return msgs
