"""Reference side of C19: tester sets, true objects, reference probability maps (Born rule on dense matrices),
reference parametrisation (mc.frames) and the complete multinomial enumerations.  No quara conversions are used on
this side; quara objects are only built through the public constructors (A.q_*)."""
import itertools
import math

import numpy as np

from mc import alphabet as A, refmodel as R
from mc.frames import Frame

COND_MAX = 100.0
KIND = {"qst": "state", "povmt": "povm", "qpt": "gate", "qmpt": "mprocess"}

# ------------------------------------------------------------------------------------------------ testers


_SX = np.array([[0, 1], [1, 0]], dtype=np.complex128)
_SY = np.array([[0, -1j], [1j, 0]], dtype=np.complex128)
_SZ = np.array([[1, 0], [0, -1]], dtype=np.complex128)
_I2 = np.eye(2, dtype=np.complex128)


def _bloch(r, w=0.5):
    """w (I + r.sigma): a state for w = 1/2, a POVM element for the right weights"""
    return w * (_I2 + r[0] * _SX + r[1] * _SY + r[2] * _SZ)


def _rot(mats, d, seed):
    """conjugate everything by one generic unitary: a seed-dependent generic orientation with seed-independent conditioning"""
    W = R.generic_unitary(d, seed, salt=5)
    return [W @ m @ W.conj().T for m in mats]


_S3 = 1 / math.sqrt(3)
_TETRA = [(_S3, _S3, _S3), (_S3, -_S3, -_S3), (-_S3, _S3, -_S3), (-_S3, -_S3, _S3)]


def _q1_povm(name):
    c, s = math.cos, math.sin
    if name == "px":
        return [_bloch((1, 0, 0)), _bloch((-1, 0, 0))]
    if name == "py":
        return [_bloch((0, 1, 0)), _bloch((0, -1, 0))]
    if name == "uz":                                    # unsharp z measurement
        return [_bloch((0, 0, 0.7)), _bloch((0, 0, -0.7))]
    if name == "pd":
        return [_bloch(_TETRA[0]), _bloch(tuple(-x for x in _TETRA[0]))]
    if name == "trine_xz":
        return [_bloch((s(2 * math.pi * k / 3), 0, c(2 * math.pi * k / 3)), 1 / 3) for k in range(3)]
    if name == "trine_yz":                              # unsharp, rotated by 0.4 rad
        return [_bloch((0, 0.8 * s(2 * math.pi * k / 3 + 0.4), 0.8 * c(2 * math.pi * k / 3 + 0.4)), 1 / 3) for k in range(3)]
    if name == "zero3":                                 # one exactly-zero element
        n = (1 / math.sqrt(2), 1 / math.sqrt(2), 0)
        return [_bloch(n), np.zeros((2, 2), dtype=np.complex128), _bloch(tuple(-x for x in n))]
    if name == "tetra":
        return [_bloch(t, 0.25) for t in _TETRA]
    if name == "tetra_u":                               # unsharp inverted tetrahedron
        return [_bloch(tuple(-0.7 * x for x in t), 0.25) for t in _TETRA]
    raise ValueError(name)


Q1_POVM_SETS = {
    "m2": ["px", "py", "uz"],
    "m2x4": ["px", "py", "uz", "pd"],
    "m3": ["trine_xz", "trine_yz"],
    "m3x3": ["trine_xz", "trine_yz", "zero3"],
    "m4": ["tetra"],
    "m4x2": ["tetra_u", "tetra"],
    "mixed234": ["py", "trine_xz", "tetra"],
    "mixed23": ["px", "trine_yz"],
    "mixed42": ["tetra", "px"],
}
Q1_POVM_M = {"px": 2, "py": 2, "uz": 2, "pd": 2, "trine_xz": 3, "trine_yz": 3, "zero3": 3, "tetra": 4, "tetra_u": 4}


def tester_states_ref(d, name, seed):
    """informationally complete tester states in a seed-dependent generic orientation"""
    if d == 2 and name in ("s4", "s5"):
        sts = [_bloch((0, 0, 1)), _bloch((0, 0, -1)), _bloch((1, 0, 0)), _bloch((0, 0.75, 0))]
        if name == "s5":
            sts.append(_bloch((-0.6, -0.6, 0.2)))
        return _rot(sts, 2, seed)
    if name in ("g9", "g10") and d == 3:
        sts = []
        for i in range(3):
            e = np.zeros(3, dtype=np.complex128)
            e[i] = 1
            sts.append(np.outer(e, e.conj()))
        for i in range(3):
            for j in range(i + 1, 3):
                for ph in (1, 1j):
                    v = np.zeros(3, dtype=np.complex128)
                    v[i], v[j] = 1 / math.sqrt(2), ph / math.sqrt(2)
                    sts.append(np.outer(v, v.conj()))
        sts[4] = 0.75 * sts[4] + 0.25 * np.eye(3) / 3      # one mixed tester
        if name == "g10":
            v = np.array([1, 1, 1], dtype=np.complex128) / math.sqrt(3)
            sts.append(np.outer(v, v.conj()))
        return _rot(sts, 3, seed)
    raise ValueError(name)


def _mub3():
    """the four mutually unbiased bases of dimension 3 (lists of rank-one projectors)"""
    w = np.exp(2j * math.pi / 3)
    bases = [[np.eye(3, dtype=np.complex128)[:, i] for i in range(3)]]
    for k in range(3):
        bases.append([np.array([w ** (k * j * j + mm * j) for j in range(3)]) / math.sqrt(3) for mm in range(3)])
    return [[np.outer(v, v.conj()) for v in b] for b in bases]


def _ic9_projectors():
    out = []
    for i in range(3):
        e = np.zeros(3, dtype=np.complex128)
        e[i] = 1
        out.append(np.outer(e, e.conj()))
    for i in range(3):
        for j in range(i + 1, 3):
            for ph in (1, 1j):
                v = np.zeros(3, dtype=np.complex128)
                v[i], v[j] = 1 / math.sqrt(2), ph / math.sqrt(2)
                out.append(np.outer(v, v.conj()))
    return out


FIXED_POVM_SETS = {
    # qutrit
    "mub3": (3, [3] * 4), "mub4": (3, [4] * 4), "proj9": (3, [2] * 9),
    # two qubits
    "pauli9": (4, [4] * 9), "tetra16": (4, [16]),
}


def _fixed_povm_set(name):
    if name == "mub3":
        return _mub3()
    if name == "mub4":                                  # the last projector split into two unequal parts: 4 outcomes
        return [[b[0], b[1], 0.25 * b[2], 0.75 * b[2]] for b in _mub3()]
    if name == "proj9":
        return [[P, np.eye(3) - P] for P in _ic9_projectors()]
    one = [_q1_povm(k) for k in ("px", "py", "uz")]
    if name == "pauli9":
        return [[np.kron(E, Fq) for E in a for Fq in b] for a in one for b in one]
    tet = _q1_povm("tetra")
    if name == "tetra16":
        return [[np.kron(E, Fq) for E in tet for Fq in tet]]
    raise ValueError(name)


def tester_povms_ref(d, name, seed):
    """fixed measurement frames conjugated by one generic unitary (seed-dependent orientation, seed-independent conditioning)"""
    if d == 2 and name in Q1_POVM_SETS:
        return [_rot(_q1_povm(k), 2, seed) for k in Q1_POVM_SETS[name]]
    if name in FIXED_POVM_SETS and FIXED_POVM_SETS[name][0] == d:
        return [_rot(P, d, seed) for P in _fixed_povm_set(name)]
    raise ValueError(name)


def truths_ref(tomo, d, m, seed):
    """dict name -> reference data of physical true objects"""
    if tomo == "qst":
        st = dict(A.states_ref(d, seed))
        if d == 2:
            st["aligned_x0"] = _rot([_bloch((1, 0, 0))], 2, seed)[0]       # eigenstate of the tester 'px': a point-mass schedule
            # the same state depolarised by 8e-9: one outcome of that schedule has probability 4e-9 (tiny but not zero)
            st["nearly_aligned_x0"] = (1 - 8e-9) * st["aligned_x0"] + 8e-9 * np.eye(2) / 2
        return st
    if tomo == "povmt":
        pv = {k: v for k, v in A.povms_ref(d, seed).items() if len(v) == m}
        if d == 2 and m == 2:
            pv["aligned_pz"] = _rot([_bloch((0, 0, 1)), _bloch((0, 0, -1))], 2, seed)   # deterministic on the testers z0, z1
        return pv
    if tomo == "qpt":
        return A.gates_ref(d, seed)
    ins = A.instruments_ref(d, seed)
    return {k: v for k, v in ins.items() if len(v) == m}


# ------------------------------------------------------------------------------------------------ reference statistics

def stacked_of(kind, data, B):
    if kind == "state":
        return A.real_checked(R.coeffs(data, B), "state")
    if kind == "povm":
        return np.concatenate([A.real_checked(R.coeffs(M, B), "povm") for M in data])
    if kind == "gate":
        return A.real_checked(R.hs_from_kraus(data, B), "gate").ravel()
    return np.concatenate([A.real_checked(R.hs_from_kraus(ks, B), "mprocess").ravel() for ks in data])


def ref_probs(tomo, x, B, rho_t, povm_t, m_est):
    """Born probabilities of ONE schedule for the (not necessarily physical) estimated object with stacked vector x;
    rho_t / povm_t are the tester matrices of the schedule (None where the estimated object sits)."""
    D = len(B)
    if tomo == "qst":
        rho = R.mat_from_coeffs(x, B)
        return np.array([np.trace(M @ rho) for M in povm_t])
    if tomo == "povmt":
        Ms = [R.mat_from_coeffs(x[k * D:(k + 1) * D], B) for k in range(m_est)]
        return np.array([np.trace(M @ rho_t) for M in Ms])
    if tomo == "qpt":
        out = R.action_from_hs(x.reshape(D, D), B)(rho_t)
        return np.array([np.trace(M @ out) for M in povm_t])
    res = []
    for k in range(m_est):                       # time order: mprocess outcome first, then the POVM outcome
        out = R.action_from_hs(x[k * D * D:(k + 1) * D * D].reshape(D, D), B)(rho_t)
        res.extend(np.trace(M @ out) for M in povm_t)
    return np.array(res)


class Setup:
    """one (tomography type, tester set, true object, flag) configuration"""

    def __init__(self, p, seed):
        from quara.protocol.qtomography.standard.standard_qst import StandardQst
        from quara.protocol.qtomography.standard.standard_povmt import StandardPovmt
        from quara.protocol.qtomography.standard.standard_qpt import StandardQpt
        from quara.protocol.qtomography.standard.standard_qmpt import StandardQmpt
        self.p = p
        tomo, flag, sysname = p["tomo"], p["flag"], p["sys"]
        self.tomo, self.flag = tomo, flag
        self.kind = KIND[tomo]
        self.c_sys = A.make_system(sysname)
        self.B = R.basis_mats(self.c_sys)
        d = self.B[0].shape[0]
        self.d, self.D = d, d * d
        self.m_est = p.get("m")
        self.F = Frame(self.kind, self.c_sys, self.m_est)
        self.states_ref = tester_states_ref(d, p["states"], seed) if tomo != "qst" else []
        self.povms_ref = tester_povms_ref(d, p["povms"], seed) if tomo != "povmt" else []
        self.q_states = [A.q_state(self.c_sys, r) for r in self.states_ref]
        self.q_povms = [A.q_povm(self.c_sys, Ms) for Ms in self.povms_ref]
        sched = p.get("sched", "all")
        ns, npv = len(self.states_ref), len(self.povms_ref)
        if tomo == "qst":
            pairs = [(None, j) for j in range(npv)]
            if sched == "perm":                   # reversed order and the first tester repeated at the end
                pairs = pairs[::-1] + [pairs[0]]
            schedules = [[("state", 0), ("povm", j)] for _, j in pairs]
            self.qt = StandardQst(self.q_povms, on_para_eq_constraint=flag, schedules=schedules if sched != "all" else "all")
        elif tomo == "povmt":
            pairs = [(i, None) for i in range(ns)]
            self.qt = StandardPovmt(self.q_states, self.m_est, on_para_eq_constraint=flag)
        elif tomo == "qpt":
            pairs = [(i, j) for i in range(ns) for j in range(npv)]
            if sched == "perm":
                pairs = pairs[::-1] + [pairs[0]]
            schedules = [[("state", i), ("gate", 0), ("povm", j)] for i, j in pairs]
            self.qt = StandardQpt(self.q_states, self.q_povms, on_para_eq_constraint=flag,
                                  schedules=schedules if sched != "all" else "all")
        else:
            pairs = [(i, j) for i in range(ns) for j in range(npv)]
            self.qt = StandardQmpt(self.q_states, self.q_povms, self.m_est, on_para_eq_constraint=flag)
        self.pairs = pairs
        self.S = len(pairs)
        if self.qt.num_schedules != self.S:
            raise AssertionError("harness: schedule count")
        # true object
        data = truths_ref(tomo, d, self.m_est, seed)[p["true"]]
        self.x_true = stacked_of(self.kind, data, self.B)
        self.v_true = self.F.var_from_stacked(self.x_true, flag)
        ctor = {"state": A.q_state, "povm": A.q_povm, "gate": A.q_gate, "mprocess": A.q_mprocess}[self.kind]
        self.qope = ctor(self.c_sys, data, on_para_eq_constraint=flag)
        # reference affine parametrisation: stacked = J v + c0
        nv = self.F.num_var(flag)
        self.nv = nv
        self.c0 = self.F.stacked_from_var(np.zeros(nv), flag)
        J = np.zeros((self.F.n, nv))
        for k in range(nv):
            e = np.zeros(nv)
            e[k] = 1
            J[:, k] = self.F.stacked_from_var(e, flag) - self.c0
        self.J = J
        if np.abs(J @ self.v_true + self.c0 - self.x_true).max() > 1e-12:
            raise AssertionError("harness: true object does not satisfy its equality constraint")
        # reference probability maps P_j (linear in the stacked vector), gradients w.r.t. var, true probabilities
        self.P, self.G, self.probs, self.M = [], [], [], []
        n = self.F.n
        for (i, j) in pairs:
            rho_t = self.states_ref[i] if i is not None else None
            povm_t = self.povms_ref[j] if j is not None else None
            cols = []
            for k in range(n):
                e = np.zeros(n)
                e[k] = 1
                cols.append(ref_probs(tomo, e, self.B, rho_t, povm_t, self.m_est))
            Pj = np.array(cols).T
            if np.abs(Pj.imag).max() > 1e-12:
                raise AssertionError("harness: complex probabilities")
            Pj = Pj.real.copy()
            pj = Pj @ self.x_true
            if abs(pj.sum() - 1) > 1e-11 or pj.min() < -1e-11:
                raise AssertionError("harness: reference probabilities are not a distribution: %r" % (pj,))
            pj = np.where(np.abs(pj) < 1e-13, 0.0, pj)
            pj = pj / pj.sum()
            self.P.append(Pj)
            self.G.append(Pj @ J)
            self.probs.append(pj)
            self.M.append(len(pj))
        self.min_prob = min(float(q.min()) for q in self.probs)
        self.cond = float(np.linalg.cond(np.vstack(self.G)))
        if not self.cond <= COND_MAX:
            raise AssertionError("harness: tester set of %r is ill conditioned (cond %.3g); the 1e-9 tolerance is not justified" % (p, self.cond))

    def base_dataset(self, n_list=None):
        return [((n_list[j] if n_list else 1), self.probs[j].copy()) for j in range(self.S)]


def comps_and_pmf(n, p):
    comps = list(R.compositions(n, len(p)))
    pm = np.array([R.multinomial_pmf(c, p) for c in comps])
    if abs(pm.sum() - 1) > 1e-12:
        raise AssertionError("harness: multinomial pmf does not sum to one")
    return np.array(comps, dtype=float), pm


def n_comps(n, m):
    return math.comb(n + m - 1, m - 1)


def nmax_for(M, cap, hard=8):
    n = 1
    while n < hard and n_comps(n + 1, M) <= cap:
        n += 1
    return n


class Enum:
    """exact first and second moments for schedule j at sample size n (complete enumeration, the library's estimator
    run on every dataset = exact true probabilities on the other schedules, the enumerated frequencies on schedule j)"""
    __slots__ = ("n", "count", "bias_v", "S2_v", "bias_o", "S2o_tr", "cov_f", "mean_f", "mse_f", "conv_err")


def run_estimator(S, est, seq):
    """library estimator on a batch of datasets -> (ok, vars (N x nv), library object-level stacked vectors (N x n))"""
    ok, res = A.call(est.calc_estimate_sequence, S.qt, seq)
    if not ok:
        return False, res, None
    V = np.array([np.asarray(v, float).ravel() for v in res.estimated_var_sequence])
    ok, objs = A.call(lambda: res.estimated_qoperation_sequence)
    if not ok:
        return False, objs, None
    O = np.array([Frame.stacked(o) for o in objs])
    return True, V, O


def enum_schedule(S, est, j, n):
    fs, pm = comps_and_pmf(n, S.probs[j])
    fs = fs / n
    base = S.base_dataset()
    seq = []
    for f in fs:
        ds = list(base)
        ds[j] = (n, f)
        seq.append(ds)
    ok, V, O = run_estimator(S, est, seq)
    if not ok:
        return False, V
    e = Enum()
    e.n, e.count = n, len(pm)
    dv = V - S.v_true
    do = O - S.x_true
    e.bias_v = pm @ dv
    e.S2_v = (dv * pm[:, None]).T @ dv
    e.bias_o = pm @ do
    e.S2o_tr = float(pm @ (do * do).sum(axis=1))
    df = fs - S.probs[j]
    e.mean_f = pm @ fs
    e.cov_f = (df * pm[:, None]).T @ df
    e.mse_f = float(pm @ (df * df).sum(axis=1))
    # library object conversion against the reference parametrisation
    e.conv_err = float(np.abs(O - (V @ S.J.T + S.c0)).max())
    return True, e


def joint_enumeration(S, est, n_list, chunk=4000):
    """complete enumeration of the JOINT datasets over all schedules (no independence shortcut except the product pmf)"""
    per = [comps_and_pmf(n, S.probs[j]) for j, n in enumerate(n_list)]
    fsl = [c / n for (c, _), n in zip(per, n_list)]
    pml = [pm for _, pm in per]
    total = int(np.prod([len(pm) for pm in pml]))
    nv, nx = S.nv, S.F.n
    tot_m = sum(S.M)
    p_all = np.concatenate(S.probs)
    acc = {"w": 0.0, "mean_v": np.zeros(nv), "S2_v": np.zeros((nv, nv)), "mean_o": np.zeros(nx), "mse_o": 0.0,
           "S2_f": np.zeros((tot_m, tot_m)), "mean_f": np.zeros(tot_m), "mse_f": 0.0, "count": total, "conv_err": 0.0}
    it = itertools.product(*[range(len(pm)) for pm in pml])
    while True:
        idx = list(itertools.islice(it, chunk))
        if not idx:
            break
        idx = np.array(idx)
        w = np.ones(len(idx))
        for j in range(S.S):
            w = w * pml[j][idx[:, j]]
        Fm = np.hstack([fsl[j][idx[:, j]] for j in range(S.S)])
        seq = [[(n_list[j], fsl[j][row[j]]) for j in range(S.S)] for row in idx]
        ok, V, O = run_estimator(S, est, seq)
        if not ok:
            return False, V
        dv, do, df = V - S.v_true, O - S.x_true, Fm - p_all
        acc["w"] += w.sum()
        acc["mean_v"] += w @ dv
        acc["S2_v"] += (dv * w[:, None]).T @ dv
        acc["mean_o"] += w @ do
        acc["mse_o"] += float(w @ (do * do).sum(axis=1))
        acc["mean_f"] += w @ df
        acc["S2_f"] += (df * w[:, None]).T @ df
        acc["mse_f"] += float(w @ (df * df).sum(axis=1))
        acc["conv_err"] = max(acc["conv_err"], float(np.abs(O - (V @ S.J.T + S.c0)).max()))
    if abs(acc["w"] - 1) > 1e-11:
        raise AssertionError("harness: joint pmf does not sum to one")
    return True, acc
